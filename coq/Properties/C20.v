(* Property C20: string formatting is total and faithful to the format directive.
   Statements only; the proofs are in Proofs/Format{Proofs,Width,Total,Radix,NoFault,Share,FloatShape,Layout}.v, the model in
   Model/Format.v (one Gallina function per Go method; oracles for strconv float digits, quoting
   beyond plain ASCII, Unicode case mapping, int64<->float64 and nested container types). *)
From Coq Require Import String.
From Coq Require Import ZArith NArith Bool List.
From PcoreV Require Import Model.Base Model.Format Model.FormatShare Model.FormatSprintf.
From PcoreV Require Import Proofs.FormatSprintf.
From PcoreV Require Import Proofs.FormatProofs Proofs.FormatWidth Proofs.FormatTotal Proofs.FormatRadix Proofs.FormatRadixPad Proofs.FormatNoFault Proofs.FormatShare.
From PcoreV Require Import Model.FormatFloatShape Proofs.FormatFloatShape Proofs.FormatLayout.
From PcoreV Require Import Model.FormatClosed Proofs.FormatClosed.
Import ListNotations.
Open Scope Z_scope.

Definition o0 : oracle := mkOracle [] [] [] [] [] [] [].

(* --- formatting is total --------------------------------------------------------------------- *)

(* for every oracle, every value (scalars, arrays, hashes, nested to any depth) and every format
   specification (default, any string, any per-type map nested to any depth) formatting returns a
   text or an error class: the fuel of the container recursion and of mergeFormats always suffices *)
Theorem C20_format_total :
  forall (o : oracle) (v : value) (spec : fspec), exists r, format_value o v spec = Some r.
Proof. exact format_total. Qed.
Print Assumptions C20_format_total.

Example C20_total_ex :
  format_value o0 (VArr [VInt 1; VArr [VStr (lit "a"); VUndef]; VHash [(VStr (lit "k"), VBool true)]]) FDefault
  = Some (OText (lit "[1, ['a', undef], {'k' => true}]"))
  /\ format_value o0 (VHash [(VStr (lit "a"), VInt 10)])
                  (FMap [(KHash, FEHash (lit "%<h") (Some (lit ";")) (Some (lit ":")) (Some [(KInteger, FEStr (lit "%#x"))]))])
     = Some (OText (lit "<'a':0xa>"))
  /\ format_value o0 (VInt 5) (FMap [(KInteger, FEStr (lit "%--d"))]) = Some (OErr ERepeatedFlag).
Proof. vm_compute. repeat split. Qed.

(* no runtime fault escapes: the explicit fault sites of the model (index into an empty string in
   fmt.fmtFloat and floatGFormat, a second numeric conversion, a container handed to a scalar's
   ToString) are unreachable for every value and specification, provided no digit string of the
   oracle is empty or a bare sign (strconv.FormatFloat never returns one) *)
Theorem C20_no_fault :
  forall (o : oracle) (v : value) (spec : fspec) (r : obs),
    oracle_ok o -> format_value o v spec = Some r -> r <> OErr EFault.
Proof. exact no_fault. Qed.
Print Assumptions C20_no_fault.

Example C20_no_fault_ex :
  let o := mkOracle [] [] [] [((4615063718147915776, 102%N, 2), lit "3.50")] [] [] [] in
  oracle_ok o /\ format_value o (VFloat 4615063718147915776) (FStr (lit "%+08.2f")) = Some (OText (lit "+0003.50")).
Proof.
  split; [|vm_compute; reflexivity].
  intros k ds [H|[]]. injection H as _ <-. split; discriminate.
Qed.

(* --- the unsupported-format error is raised exactly outside the documented set ------------- *)

(* for every scalar value, every format (any flags, width, precision, letter) and every oracle:
   the scalar's ToString raises UnsupportedFormat(c, k) iff the format's letter is outside the
   documented set of the value's kind, and then c is that letter and k the kind's name *)
Theorem C20_unsupported_iff_outside_set :
  forall (o : oracle) (f : format) (v : value) (c : N) (k : kind),
    is_container v = false ->
    (render_scalar o f v = OErr (EUnsupported c k)
     <-> (supported (kind_of v) (f_char f) = false /\ c = f_char f /\ k = kind_of v)).
Proof. exact unsupported_iff. Qed.
Print Assumptions C20_unsupported_iff_outside_set.

(* the same through px.NewFormatContext3(value, directive) + ToString, for every directive string of
   the grammar (parse_format succeeds).  Float NaN is included (fixed finding nan-directive-ignored): its
   inferred type is the unbounded Float type, which accepts itself, so GetFormat selects the directive *)
Theorem C20_unsupported_iff_directive :
  forall (o : oracle) (v : value) (s : str) (f : format) (c : N) (k : kind),
    is_container v = false -> parse_format s None None CfNone = ROk f ->
    (format_value o v (FStr s) = Some (OErr (EUnsupported c k))
     <-> (supported (kind_of v) (f_char f) = false /\ c = f_char f /\ k = kind_of v)).
Proof. exact unsupported_iff_directive. Qed.
Print Assumptions C20_unsupported_iff_directive.

Example C20_unsupported_ex :
  format_value o0 (VInt 5) (FStr (lit "%-8q")) = Some (OErr (EUnsupported 113 KdInteger))
  /\ format_value o0 (VInt 255) (FStr (lit "%#010x")) = Some (OText (lit "0x00000000ff"))
  /\ format_value o0 (VStr (lit "ab")) (FStr (lit "%-5s|")) = Some (OErr EInvalidSpec)
  /\ format_value o0 (VStr (lit "ab")) (FStr (lit "%-5p")) = Some (OText (lit "'ab' ")).
Proof. vm_compute. repeat split. Qed.

(* --- radix renderings convert back ----------------------------------------------------------- *)

(* the digit string of every u < 2^64 (hence of |n| for every int64 n, MinInt64 included) in radix
   2, 8, 10 and 16, lower and upper case, consists of valid digits of that radix and denotes u *)
Theorem C20_digits_roundtrip :
  forall (base : Z) (upper : bool) (u : Z),
    In base [2; 8; 10; 16] -> 0 <= u < 2 ^ 64 ->
    exists dv, digit_vals base (digits base upper u) = Some dv /\ of_digits base dv = u.
Proof. exact digits_roundtrip. Qed.
Print Assumptions C20_digits_roundtrip.

(* lifted to the Integer constructor with radix (Convertible pattern, prefix that agrees with the
   radix, strconv.ParseInt): for every int64 n and every format with letter d x X o b B, with or
   without '#', with or without '+' (no width, precision or space flag), the text that Integer n
   renders to is converted back to n by Integer.new(text, radix of the letter) *)
Theorem C20_radix_roundtrip :
  forall (o : oracle) (f : format) (n : Z) (t : str),
    plain_format f -> in_int64 n = true -> mem (f_char f) l_dxXobB = true ->
    render_scalar o f (VInt n) = OText t -> int_new t (radix_of (f_char f)) = Some n.
Proof. exact radix_roundtrip. Qed.
Print Assumptions C20_radix_roundtrip.

Theorem C20_radix_roundtrip_directive :
  forall (o : oracle) (s : str) (f : format) (n : Z) (t : str),
    parse_format s None None CfNone = ROk f -> plain_format f -> in_int64 n = true ->
    mem (f_char f) l_dxXobB = true ->
    format_value o (VInt n) (FStr s) = Some (OText t) -> int_new t (radix_of (f_char f)) = Some n.
Proof. exact radix_roundtrip_directive. Qed.
Print Assumptions C20_radix_roundtrip_directive.

Example C20_radix_ex :
  digits 16 true 9223372036854775808 = lit "8000000000000000"
  /\ format_value o0 (VInt (-9223372036854775808)) (FStr (lit "%#x")) = Some (OText (lit "-0x8000000000000000"))
  /\ int_new (lit "-0x8000000000000000") 16 = Some (-9223372036854775808)
  /\ format_value o0 (VInt 5) (FStr (lit "%#+B")) = Some (OText (lit "+0B101"))
  /\ int_new (lit "+0B101") 2 = Some 5
  /\ (exists f, parse_format (lit "%#+B") None None CfNone = ROk f /\ plain_format f /\ mem (f_char f) l_dxXobB = true).
Proof.
  vm_compute. repeat split; try reflexivity.
  eexists. split; [reflexivity|]. vm_compute. repeat split; auto.
Qed.

(* ... under ANY flags, width and precision (zero filled to any width - beyond the 16 / 22 / 64 / 19 digits
   a 64 bit number needs included -, filled by any precision, space padded on either side, '#', '+', ' '):
   the rendering with its padding spaces trimmed (strings.TrimSpace) is converted back to n by both
   dispatches of the constructor, Integer.new(text, radix [, abs]) and Integer.new({from => text, radix =>
   radix [, abs => abs]}); under abs => true a negative n comes back negated (wrapping at MinInt64).
   The single exception is fmt's (and C's) rule that precision 0 of the integer 0 renders no digit. *)
Theorem C20_radix_roundtrip_any_format :
  forall (o : oracle) (f : format) (n : Z) (t : str) (form : ctor_form) (abs : option bool),
    in_int64 n = true -> mem (f_char f) l_dxXobB = true -> (f_prec f = 0 -> n <> 0) ->
    render_scalar o f (VInt n) = OText t ->
    int_ctor form (trim_space t) (radix_of (f_char f)) abs
    = Some (if abs_given abs && (n <? 0) then wrap64 (- n) else n).
Proof. exact radix_roundtrip_ctor. Qed.
Print Assumptions C20_radix_roundtrip_any_format.

(* a rendering that carries no white space (zero fill, precision fill, no width) converts back as it is *)
Theorem C20_radix_roundtrip_filled :
  forall (o : oracle) (f : format) (n : Z) (t : str),
    in_int64 n = true -> mem (f_char f) l_dxXobB = true -> (f_prec f = 0 -> n <> 0) ->
    render_scalar o f (VInt n) = OText t -> Forall (fun c => is_space_b c = false) t ->
    int_new t (radix_of (f_char f)) = Some n.
Proof. exact radix_roundtrip_filled. Qed.
Print Assumptions C20_radix_roundtrip_filled.

(* through px.NewFormatContext3(Integer n, directive) + px.ToString2, for every directive of the grammar *)
Theorem C20_radix_roundtrip_any_directive :
  forall (o : oracle) (s : str) (f : format) (n : Z) (t : str) (form : ctor_form),
    parse_format s None None CfNone = ROk f -> in_int64 n = true -> mem (f_char f) l_dxXobB = true ->
    (f_prec f = 0 -> n <> 0) ->
    format_value o (VInt n) (FStr s) = Some (OText t) ->
    int_ctor form (trim_space t) (radix_of (f_char f)) None = Some n.
Proof. exact radix_roundtrip_ctor_directive. Qed.
Print Assumptions C20_radix_roundtrip_any_directive.

Example C20_radix_pad_ex :
  format_value o0 (VInt 255) (FStr (lit "%+024x")) = Some (OText (lit "+000000000000000000000ff"))
  /\ int_ctor CPositional (lit "+000000000000000000000ff") 16 None = Some 255
  /\ int_ctor CNamed (lit "+000000000000000000000ff") 16 None = Some 255
  /\ format_value o0 (VInt (-9)) (FStr (lit "%.21d")) = Some (OText (lit "-000000000000000000009"))
  /\ int_ctor CNamed (lit "-000000000000000000009") 10 (Some true) = Some 9
  /\ format_value o0 (VInt 8) (FStr (lit "%#-8o")) = Some (OText (lit "010     "))
  /\ int_ctor CPositional (trim_space (lit "010     ")) 8 None = Some 8
  /\ format_value o0 (VInt 0) (FStr (lit "%3.0x")) = Some (OText (lit "   "))
  /\ int_ctor CPositional (lit "ff") 7 None = None
  /\ int_ctor CPositional (lit "-8000000000000000") 16 (Some true) = Some (-9223372036854775808).
Proof. vm_compute. repeat split. Qed.

(* --- width and padding side ------------------------------------------------------------------ *)

(* every scalar rendering that does not pass through fmt's float verbs (Integer/Float/Boolean under
   e E f g G a A, whose digits are strconv's) is at least as wide, in runes, as the format asks *)
Theorem C20_width_respected_partial :
  forall (o : oracle) (f : format) (v : value) (t : str),
    is_container v = false -> float_path v (f_char f) = false ->
    render_scalar o f v = OText t -> f_width f <= rlen t.
Proof. exact width_respected. Qed.
Print Assumptions C20_width_respected_partial.
(* partial: the renderings under e E f g G a A are excluded (digit strings are an oracle); their
   sign / zero padding / width shape is tied by the correspondence and the direct check only *)

(* the same through NewFormatContext3(value, directive string), Float NaN included; partial for the same reason
   (float_path) *)
Theorem C20_width_respected_directive_partial :
  forall (o : oracle) (v : value) (s : str) (f : format) (t : str),
    is_container v = false -> float_path v (f_char f) = false ->
    parse_format s None None CfNone = ROk f ->
    format_value o v (FStr s) = Some (OText t) -> f_width f <= rlen t.
Proof. exact width_respected_directive. Qed.
Print Assumptions C20_width_respected_directive_partial.

(* fixed finding nan-directive-ignored: the directive given for NaN is applied ('%10s' of NaN is 10 wide, '%6g'
   6 wide; it was "NaN", 3 wide, whatever the directive: Float[NaN, NaN] did not accept itself and GetFormat fell
   back to %s) *)
Example C20_nan_directive_applied :
  let o := mkOracle [] [] [] [((9221120237041090561, 103%N, -1), lit "NaN")] [] [] [] in
  format_value o (VFloat 9221120237041090561) (FStr (lit "%10s")) = Some (OText (lit "       NaN"))
  /\ format_value o (VFloat 9221120237041090561) (FStr (lit "%6g")) = Some (OText (lit "   NaN"))
  /\ format_value o (VFloat 9221120237041090561) (FStr (lit "%q")) = Some (OErr (EUnsupported 113 KdFloat)).
Proof. vm_compute. repeat split. Qed.

(* ApplyStringFlags (every value kind's %s %p %c %t ... family): the text under width w is the text
   without width padded with spaces to w runes, on the right under '-', on the left otherwise *)
Theorem C20_padding_side_string_flags :
  forall (o : oracle) (f : format) (s : str) (quoted : bool) (t : str),
    apply_string_flags o f s quoted = OText t ->
    exists t0, apply_string_flags o (set_width f (-1)) s quoted = OText t0 /\ padded (f_left f) (f_width f) t0 t.
Proof. exact padding_side_string_flags. Qed.
Print Assumptions C20_padding_side_string_flags.

(* the integer verbs d x X o b: under '-' or without the '0' flag, the same statement *)
Theorem C20_padding_side_integer :
  forall (f : format) (verb : N) (n : Z),
    (f_left f = true \/ f_zero f = false) ->
    padded (f_left f) (f_width f) (go_fmt_int (set_width f (-1)) verb n) (go_fmt_int f verb n).
Proof. exact padding_side_integer. Qed.
Print Assumptions C20_padding_side_integer.

Example C20_width_ex :
  format_value o0 (VStr (lit "héllo")) (FStr (lit "%-8.3s")) = Some (OText (lit "hél     "))
  /\ format_value o0 (VInt (-42)) (FStr (lit "%08d")) = Some (OText (lit "-0000042"))
  /\ format_value o0 (VInt (-42)) (FStr (lit "%-8d")) = Some (OText (lit "-42     "))
  /\ format_value o0 VUndef (FStr (lit "%10s")) = Some (OText (lit "     undef")).
Proof. vm_compute. repeat split. Qed.

(* --- width for EVERY directive: the float verbs e E f g G a A, the digit string an oracle ------------ *)

(* The digit strings of strconv.FormatFloat are an oracle (the table o_fdig of `o`, any table: `dig_of o` is an arbitrary
   partial function (bits, verb, precision) -> string).  For EVERY table of ASCII digit strings (fdig_ascii; strconv
   writes digits, '.', 'e', 'p', 'x', signs, "Inf", "NaN" only, and the correspondence evaluates fdig_ascii on the
   strings the implementation showed in every case of every run) every scalar rendering - Integer / Float / Boolean under
   e E f g G a A included - is at least `width` runes wide.  No float_path exclusion: this is the property's width
   clause for all directives; the _partial theorems above are its corollaries for tables of any content. *)
Theorem C20_width_respected :
  forall (o : oracle) (f : format) (v : value) (t : str),
    fdig_ascii o = true -> is_container v = false ->
    render_scalar o f v = OText t -> f_width f <= rlen t.
Proof. exact width_respected_all. Qed.
Print Assumptions C20_width_respected.

Theorem C20_width_respected_directive :
  forall (o : oracle) (v : value) (s : str) (f : format) (t : str),
    fdig_ascii o = true -> is_container v = false ->
    parse_format s None None CfNone = ROk f ->
    format_value o v (FStr s) = Some (OText t) -> f_width f <= rlen t.
Proof. exact width_respected_directive_all. Qed.
Print Assumptions C20_width_respected_directive.

(* for digit strings of ANY content (no hypothesis on the table at all) the text is at least `width` BYTES long:
   fmt and padFloat measure the digit string in bytes (len(num), format.go:586; len(s), floattype.go:387) *)
Theorem C20_width_respected_bytes :
  forall (o : oracle) (f : format) (v : value) (t : str),
    is_container v = false -> render_scalar o f v = OText t -> f_width f <= len t.
Proof. exact width_respected_bytes. Qed.
Print Assumptions C20_width_respected_bytes.

(* the ASCII hypothesis cannot be dropped from the rune statement: around a digit string with a two-byte rune fmt's
   zero padding (counted in bytes) gives 5 runes for width 6 - strconv never writes such a string *)
Example C20_width_needs_ascii_digits :
  let o := mkOracle [] [] [] [((4609434218613702656, 102%N, 6), [49; 195; 169]%N)] [] [] [] in
  fdig_ascii o = false
  /\ format_value o (VFloat 4609434218613702656) (FStr (lit "%+06f")) = Some (OText [43; 48; 48; 49; 195; 169]%N)
  /\ rlen [43; 48; 48; 49; 195; 169]%N = 5 /\ len [43; 48; 48; 49; 195; 169]%N = 6.
Proof. vm_compute. repeat split. Qed.

(* --- the shape built around the digit string ----------------------------------------------------- *)

(* fmt.fmtFloat (the model's method-by-method transcription fmt_float: sign rewriting, the Inf/NaN arm, the '#' scan,
   "sign first, then zeros" arm, pad) IS the specification fmt_float_spec of Model/FormatFloatShape.v:
     text = fl_layout minus (zero and not Inf/NaN) width sign body
     sign = "-" for a negative number, else "+" under '+', else " " under ' ', else nothing ("+" for +Inf)
     body = the digit string as it is (after the '#' completion sharp_fix under '#')
   for EVERY table of ASCII digit strings, every flag set, width, precision, verb and float *)
Theorem C20_float_shape :
  forall (o : oracle) (sharp zero plus space minus : bool) (wid prec : Z) (verb : N) (bits : Z),
    fdig_ascii o = true ->
    fmt_float o sharp zero plus space minus wid prec verb bits =
    fmt_float_spec (dig_of o) sharp zero plus space minus wid prec verb bits.
Proof. exact fmt_float_shape. Qed.
Print Assumptions C20_float_shape.

(* what the layout is: spaces, sign, zeros, body, spaces - at most one pad non-empty, together exactly the bytes
   missing to `width` (none when the text is wider: nothing is ever cut); under '-' the pad is on the right and the
   '0' flag is ignored; under '0' the zeros stand between the sign and the digits; otherwise spaces on the left *)
Theorem C20_float_layout_parts :
  forall (minus zero : bool) (wid : Z) (sign body : str),
  exists lpad zpad rpad : Z,
    fl_layout minus zero wid sign body = spaces lpad ++ sign ++ zeros zpad ++ body ++ spaces rpad
    /\ lpad + zpad + rpad = Z.max 0 (wid - (len sign + len body))
    /\ 0 <= lpad /\ 0 <= zpad /\ 0 <= rpad
    /\ (minus = true -> lpad = 0 /\ zpad = 0)
    /\ (minus = false -> rpad = 0 /\ (if zero then lpad = 0 else zpad = 0)).
Proof. exact fl_layout_parts. Qed.
Print Assumptions C20_float_layout_parts.

Theorem C20_float_layout_len :
  forall (minus zero : bool) (wid : Z) (sign body : str),
    len (fl_layout minus zero wid sign body) = Z.max wid (len sign + len body).
Proof. exact fl_layout_len. Qed.
Print Assumptions C20_float_layout_len.

(* Boolean / Integer / Float under e E f a A (the verbs floatValue.ToString hands to fmt as they are; a A as x X):
   the text is that shape around the digit string of the value's float64 *)
Theorem C20_float_shape_scalar :
  forall (o : oracle) (f : format) (v : value) (bits : Z),
    fdig_ascii o = true -> float_bits_of o v = Some bits -> float_verb_direct (f_char f) = true ->
    render_scalar o f v = go_fmt_float_spec (dig_of o) f (fl_verb (f_char f)) bits.
Proof. exact render_scalar_float_shape. Qed.
Print Assumptions C20_float_shape_scalar.

(* padFloat (floattype.go:386, the padding of g G) is the same layout, the sign being the text's first byte; every text *)
Theorem C20_pad_float_shape :
  forall (f : format) (s : str), pad_float f s = pad_float_spec f s.
Proof. exact pad_float_shape. Qed.
Print Assumptions C20_pad_float_shape.

(* floatGFormat (g G): the text is fmt's %g text (no width) followed by the fill ('.', '0's) the precision asks for,
   laid out by padFloat - never cut - or the value rendered anew under %e / %E (itself the shape above) *)
Theorem C20_float_g_shape :
  forall (o : oracle) (f : format) (bits : Z) (t : str),
    float_g o f bits = OText t ->
    exists s, go_fmt_float o (without_width f) (f_char f) bits = OText s /\
      ((exists fill, t = pad_float_spec f (s ++ fill) /\ Forall (fun c => c = 46%N \/ c = 48%N) fill)
       \/ (exists p, go_fmt_float o (with_prec (replace_char f (if N.eqb (f_char f) 71 then 69%N else 101%N)) p)
                                  (if N.eqb (f_char f) 71 then 69%N else 101%N) bits = OText t)).
Proof. exact float_g_shape. Qed.
Print Assumptions C20_float_g_shape.

(* floatGFormat (g G) as ONE closed statement (Model/FormatClosed.v: float_g_spec), for every digit oracle with ASCII
   strings: the text is fl_layout(left, zero, width, sign, body) - the layout of C20_float_layout_parts - where sign and
   text r are fmt's %g rendering (sign fmt wrote ++ digit string of the oracle) split at its sign character, and
   body = g_body f keep r: r itself when it carries an exponent or the number is Inf / NaN, else r ++ g_fill (a '.' when
   there is none, the zeros missing to g_prec significant digits, "1" -> "1.0"); when r is integral with exactly g_prec
   digits the text is the %e shape go_fmt_float_spec with precision g_prec - 1.  C20_float_g_shape and
   C20_pad_float_shape are its two steps (it is derived from pad_float_shape and go_fmt_float_shape). *)
Theorem C20_float_g_shape_closed :
  forall (o : oracle) (f : format) (bits : Z),
    fdig_ascii o = true -> float_g o f bits = float_g_spec (dig_of o) f bits.
Proof. exact float_g_shape_closed. Qed.
Print Assumptions C20_float_g_shape_closed.

(* when the digit strings begin with no sign character (strconv's never do: fdig_unsigned, evaluated by the
   correspondence on every case) the sign laid out is the sign fmt chose (fl_sign) and the body is g_body of the
   oracle's digit string itself *)
Theorem C20_float_g_shape_closed_unsigned :
  forall (o : oracle) (f : format) (bits : Z),
    fdig_ascii o = true -> fdig_unsigned o = true -> float_g o f bits = float_g_spec_unsigned (dig_of o) f bits.
Proof. exact float_g_shape_closed_unsigned. Qed.
Print Assumptions C20_float_g_shape_closed_unsigned.

(* Boolean / Integer / Float under g G, any table *)
Theorem C20_float_g_shape_scalar :
  forall (o : oracle) (f : format) (v : value) (bits : Z),
    fdig_ascii o = true -> float_bits_of o v = Some bits -> mem (f_char f) l_gG = true ->
    render_scalar o f v = float_g_spec (dig_of o) f bits.
Proof. exact render_scalar_float_g_closed. Qed.
Print Assumptions C20_float_g_shape_scalar.

(* the correspondence obligation float_g_check (Corr/CorrC20.v, every case) holds of the model's own text *)
Theorem C20_float_g_check_sound :
  forall (o : oracle) (v : value) (spec : fspec) (t : str),
    fdig_ascii o = true ->
    format_value o v spec = Some (OText t) -> float_g_check o v spec (OText t) = true.
Proof. exact float_g_check_model. Qed.
Print Assumptions C20_float_g_check_sound.

(* 1.5 under %08g: filled to 6 significant digits, zero padded; -1.5 under %-+9.3g; 100000 under %.6g is rendered anew
   as %.5e; 1e+21 keeps its exponent; the closed form computes the same texts *)
Example C20_float_g_closed_ex :
  let pos := 4609434218613702656 in let neg := 13832806255468478464 in let big := 4681608360884174848 in
  let o := mkOracle [] [] [] [((pos, 103%N, -1), lit "1.5"); ((neg, 103%N, 3), lit "1.5"); ((big, 103%N, 6), lit "100000");
                              ((big, 101%N, 5), lit "1.00000e+05"); ((pos, 71%N, -1), lit "1.5E+21")] [] [] [] in
  fdig_ascii o = true /\ fdig_unsigned o = true
  /\ float_g_spec_unsigned (dig_of o) (mkFormat false false true 103 0 (-1) 8 0 None None CfNone) pos = OText (lit "01.50000")
  /\ float_g_spec_unsigned (dig_of o) (mkFormat false true false 103 43 3 9 0 None None CfNone) neg = OText (lit "-1.50    ")
  /\ float_g_spec_unsigned (dig_of o) (mkFormat false false false 103 0 6 (-1) 0 None None CfNone) big = OText (lit "1.00000e+05")
  /\ float_g_spec_unsigned (dig_of o) (mkFormat false false false 71 32 (-1) 9 0 None None CfNone) pos = OText (lit "  1.5E+21")
  /\ format_value o (VFloat pos) (FStr (lit "%08g")) = Some (OText (lit "01.50000"))
  /\ format_value o (VFloat neg) (FStr (lit "%-+9.3g")) = Some (OText (lit "-1.50    "))
  /\ format_value o (VFloat big) (FStr (lit "%.6g")) = Some (OText (lit "1.00000e+05")).
Proof. vm_compute. repeat split. Qed.

(* the correspondence obligation float_shape_check (Corr/CorrC20.v evaluates it on every case of a run: fdig_ascii of the
   observed digit strings, width in runes under e E f g G a A, observed text = go_fmt_float_spec under e E f a A) holds
   of the model's own text, so a failure of it is a difference between model and implementation *)
Theorem C20_float_shape_check_sound :
  forall (o : oracle) (v : value) (spec : fspec) (t : str),
    fdig_ascii o = true ->
    format_value o v spec = Some (OText t) -> float_shape_check o v spec (OText t) = true.
Proof. exact float_shape_check_model. Qed.
Print Assumptions C20_float_shape_check_sound.

(* width for a scalar under ANY specification (directive string, per-type map of any nesting, default): the width of the
   format GetFormat selects for the value *)
Theorem C20_width_respected_any_spec :
  forall (o : oracle) (v : value) (spec : fspec) (f : format) (t : str),
    fdig_ascii o = true -> scalar_format o v spec = Some f ->
    format_value o v spec = Some (OText t) -> f_width f <= rlen t.
Proof. exact width_respected_spec. Qed.
Print Assumptions C20_width_respected_any_spec.

(* -1.5, 1.5, +Inf: zeros between sign and digits, left alignment (the '0' flag ignored), spaces on the left, the ' ' and
   '+' flags, '#', Inf never zero padded, %g filled to 6 significant digits then zero padded *)
Example C20_float_shape_ex :
  let pos := 4609434218613702656 in let neg := 13832806255468478464 in let inf := 9218868437227405312 in
  let o := mkOracle [] [] [] [((neg, 102%N, 2), lit "1.50"); ((pos, 102%N, 2), lit "1.50"); ((pos, 102%N, 0), lit "2");
                              ((inf, 102%N, 6), lit "+Inf"); ((pos, 103%N, -1), lit "1.5")] [] [] [] in
  fdig_ascii o = true
  /\ format_value o (VFloat neg) (FStr (lit "%+010.2f")) = Some (OText (lit "-000001.50"))
  /\ format_value o (VFloat neg) (FStr (lit "%-010.2f")) = Some (OText (lit "-1.50     "))
  /\ format_value o (VFloat neg) (FStr (lit "%10.2f")) = Some (OText (lit "     -1.50"))
  /\ format_value o (VFloat pos) (FStr (lit "% 10.2f")) = Some (OText (lit "      1.50"))
  /\ format_value o (VFloat pos) (FStr (lit "%+-8.2f")) = Some (OText (lit "+1.50   "))
  /\ format_value o (VFloat pos) (FStr (lit "%#.0f")) = Some (OText (lit "2."))
  /\ format_value o (VFloat inf) (FStr (lit "%010f")) = Some (OText (lit "      +Inf"))
  /\ format_value o (VFloat pos) (FStr (lit "%08g")) = Some (OText (lit "01.50000"))
  /\ go_fmt_float_spec (dig_of o) (mkFormat false false true 102 43 2 10 0 None None CfNone) 102 neg = OText (lit "-000001.50").
Proof. vm_compute. repeat split. Qed.

(* --- containers are rendered recursively ------------------------------------------------------- *)

(* Array: under the format f that GetFormat selects (letter a, s or p; not alternate; outside an
   indenting context), if every element renders to a text - containers under the parent's format
   map, scalars under the container formats of f or the default ones - the array renders to left
   delimiter, those texts joined by separator and space, right delimiter *)
Theorem C20_array_recursive :
  forall n o ind m es f ts,
    get_format o m (VArr es) = ROk f -> mem (f_char f) set_array = true ->
    f_alt f = false -> i_indenting ind = false ->
    Forall2 (fun e t => render n o (i_subsequent (i_increase (i_set_indenting ind false) false))
                               (if is_container e then m else cf_or_default f) false e = Some (OText t)) es ts ->
    render (S n) o ind m false (VArr es) =
    Some (OText (opt_byte (fst (delim_pair (if N.eqb (f_delim f) 0 then 91%N else f_delim f))) ++
                 join (sep_or (f_sep f) s_comma ++ [32%N]) ts ++
                 opt_byte (snd (delim_pair (if N.eqb (f_delim f) 0 then 91%N else f_delim f))))).
Proof. exact array_recursive. Qed.
Print Assumptions C20_array_recursive.

(* Hash (letters h s p): key text, association separator, value text per entry *)
Theorem C20_hash_recursive :
  forall n o ind m es f ts,
    get_format o m (VHash es) = ROk f -> N.eqb (f_char f) 97 = false -> mem (f_char f) l_hsp = true ->
    f_alt f = false -> i_indenting ind = false ->
    Forall2 (fun kv t =>
               render n o (i_increase (i_set_indenting ind false) false)
                      (if is_container (fst kv) then m else cf_or_default f) false (fst kv) = Some (OText (fst t)) /\
               render n o (i_increase (i_set_indenting ind false) false)
                      (if is_container (snd kv) then m else cf_or_default f) false (snd kv) = Some (OText (snd t))) es ts ->
    render (S n) o ind m false (VHash es) =
    Some (OText (opt_byte (fst (delim_pair (if N.eqb (f_delim f) 0 then 123%N else f_delim f))) ++
                 join (sep_or (f_sep f) s_comma ++ [32%N]) (map (fun kv => fst kv ++ sep_or (f_sep2 f) s_arrow ++ snd kv) ts) ++
                 opt_byte (snd (delim_pair (if N.eqb (f_delim f) 0 then 123%N else f_delim f))))).
Proof. exact hash_recursive. Qed.
Print Assumptions C20_hash_recursive.

Example C20_container_ex :
  format_value o0 (VArr [VInt 10; VInt 255]) (FMap [(KArray, FEHash (lit "%(a") (Some (lit ";")) None (Some [(KInteger, FEStr (lit "%x"))]))])
  = Some (OText (lit "(a; ff)"))
  /\ format_value o0 (VHash [(VInt 1, VArr [VInt 2])]) (FStr (lit "%#h")) <> None.
Proof. vm_compute. split; [reflexivity | discriminate]. Qed.

(* --- containers, EVERY layout (alternate '#', nested in an indenting context) ------------------------- *)

(* The two theorems above without `f_alt f = false` and `i_indenting ind = false`: for any format GetFormat selects and any
   indentation, if the children render to texts under the children's context child_ind f ind (level + 1, indenting iff '#')
   the container renders to arr_layout / hash_layout of those texts (Model/Format.v; closed forms below) *)
Theorem C20_array_recursive_any_layout :
  forall n o ind m es f ts,
    get_format o m (VArr es) = ROk f -> mem (f_char f) set_array = true ->
    Forall2 (fun e t => render n o (i_subsequent (child_ind f ind))
                               (if is_container e then m else cf_or_default f) false e = Some (OText t)) es ts ->
    render (S n) o ind m false (VArr es) = Some (OText (arr_layout f ind 91 (combine (map is_container es) ts))).
Proof. exact array_recursive_any. Qed.
Print Assumptions C20_array_recursive_any_layout.

Theorem C20_hash_recursive_any_layout :
  forall n o ind m es f ts,
    get_format o m (VHash es) = ROk f -> N.eqb (f_char f) 97 = false -> mem (f_char f) l_hsp = true ->
    Forall2 (fun kv t =>
               render n o (child_ind f ind) (if is_container (fst kv) then m else cf_or_default f) false (fst kv) = Some (OText (fst t)) /\
               render n o (child_ind f ind) (if is_container (snd kv) then m else cf_or_default f) false (snd kv) = Some (OText (snd t))) es ts ->
    render (S n) o ind m false (VHash es) = Some (OText (hash_layout f ind ts)).
Proof. exact hash_recursive_any. Qed.
Print Assumptions C20_hash_recursive_any_layout.

(* a Hash under %a is rendered as the array of its entries [key, value] *)
Theorem C20_hash_as_array :
  forall n o ind m es f,
    get_format o m (VHash es) = ROk f -> N.eqb (f_char f) 97 = true ->
    render (S n) o ind m false (VHash es) = render n o ind m true (VArr (map entry_array es)).
Proof. exact hash_as_array. Qed.
Print Assumptions C20_hash_as_array.

(* the alternate Hash layout in closed form: [line break + own padding when nested and not first] delimiter, newline,
   one line per entry padded to the children's level (two spaces per level), entries separated by separator + newline,
   the closing delimiter on its own line at the own level *)
Theorem C20_hash_layout_alternate :
  forall f ind items,
    f_alt f = true ->
    let own := i_set_indenting ind true in
    hash_layout f ind items =
    (if i_breaks own then line_break own else []) ++
    opt_byte (fst (delim_pair (if N.eqb (f_delim f) 0 then 123%N else f_delim f))) ++ [10%N] ++
    join (sep_or (f_sep f) s_comma ++ [10%N])
         (map (fun kv => i_padding (i_increase own true) ++ fst kv ++ sep_or (f_sep2 f) s_arrow ++ snd kv) items) ++
    line_break own ++
    opt_byte (snd (delim_pair (if N.eqb (f_delim f) 0 then 123%N else f_delim f))).
Proof. exact hash_layout_alternate. Qed.
Print Assumptions C20_hash_layout_alternate.

(* Array, any layout: scalar elements and no width (no break for size) stay on one line: [line break + own padding]
   delimiter, texts joined by separator + space, delimiter *)
Theorem C20_array_layout_scalars :
  forall f ind delim items,
    Forall (fun it => fst it = false) items -> f_width f < 0 ->
    let own := i_set_indenting ind (f_alt f || i_indenting ind) in
    arr_layout f ind delim items =
    (if i_breaks own then line_break own else []) ++
    opt_byte (fst (delim_pair (if N.eqb (f_delim f) 0 then delim else f_delim f))) ++
    join (sep_or (f_sep f) s_comma ++ [32%N]) (map snd items) ++
    opt_byte (snd (delim_pair (if N.eqb (f_delim f) 0 then delim else f_delim f))).
Proof. exact arr_layout_scalars. Qed.
Print Assumptions C20_array_layout_scalars.

(* Array, alternate layout, between two elements: the separator, then nothing before a container child (it breaks the line
   itself), a line break + children's padding before a scalar that follows a container (or when lines are broken for size),
   else one space *)
Theorem C20_array_alternate_step :
  forall szb pad sep ah s r prev,
    arr_rest true szb pad sep ((ah, s) :: r) prev =
    sep ++ (if ah then [] else if szb || prev then 10%N :: pad else [32%N]) ++ s ++ arr_rest true szb pad sep r ah.
Proof. exact arr_rest_alternate_step. Qed.
Print Assumptions C20_array_alternate_step.

(* the alternate ('#') Array layout with container children and line breaks for size as ONE closed formula
   (Model/FormatClosed.v, by induction on the element list): [line break + own padding when nested and not first]
   delimiter, the cells joined by the separator, delimiter; the cell of the first element is its text (after one space
   when lines are broken for size and it is a scalar), the cell of every later element is arr_gap ++ text: nothing in
   front of a container child (it breaks the line itself), line break + children's padding in front of a scalar that
   follows a container or when lines are broken for size, else one space; lines are broken for size iff
   0 <= width and some maximal run of consecutive scalar children is longer than the width (sz_break_closed) *)
Theorem C20_array_layout_alternate_closed :
  forall f ind delim items,
    f_alt f = true ->
    let own := i_set_indenting ind true in
    let szb := (0 <=? f_width f) && existsb (fun t => f_width f <? t) (run_totals items 0) in
    arr_layout f ind delim items =
    (if i_breaks own then line_break own else []) ++
    opt_byte (fst (delim_pair (if N.eqb (f_delim f) 0 then delim else f_delim f))) ++
    join (sep_or (f_sep f) s_comma) (arr_cells szb (i_padding (i_increase own true)) items) ++
    opt_byte (snd (delim_pair (if N.eqb (f_delim f) 0 then delim else f_delim f))).
Proof. exact arr_layout_alternate_closed. Qed.
Print Assumptions C20_array_layout_alternate_closed.

(* the size rule of arraytype.go:678-692 (a loop with a running width that a container child resets) is that statement
   about runs, for every width >= 0 *)
Theorem C20_array_size_break_closed :
  forall w items, 0 <= w ->
    sz_break w items 0 = true <-> exists t, In t (run_totals items 0) /\ w < t.
Proof. intros w items Hw. rewrite (sz_break_closed_eq w items Hw). exact (sz_break_closed_iff w items). Qed.
Print Assumptions C20_array_size_break_closed.

(* not alternate: one line whatever the children are (C20_array_layout_scalars without its hypotheses on the elements
   and the width); and both together: arr_layout IS arr_layout_closed, the formula the correspondence evaluates on every
   Array case of a run (arr_closed_check, sound by C20_array_closed_check_sound) *)
Theorem C20_array_layout_flat_closed :
  forall f ind delim items,
    f_alt f = false ->
    let own := i_set_indenting ind (i_indenting ind) in
    arr_layout f ind delim items =
    (if i_breaks own then line_break own else []) ++
    opt_byte (fst (delim_pair (if N.eqb (f_delim f) 0 then delim else f_delim f))) ++
    join (sep_or (f_sep f) s_comma ++ [32%N]) (map snd items) ++
    opt_byte (snd (delim_pair (if N.eqb (f_delim f) 0 then delim else f_delim f))).
Proof. exact arr_layout_flat_closed_eq. Qed.
Print Assumptions C20_array_layout_flat_closed.

Theorem C20_array_layout_closed :
  forall f ind delim items, arr_layout f ind delim items = arr_layout_closed f ind delim items.
Proof. exact arr_layout_closed_eq. Qed.
Print Assumptions C20_array_layout_closed.

Theorem C20_array_closed_check_sound :
  forall (o : oracle) (v : value) (spec : fspec) (t : str),
    format_value o v spec = Some (OText t) -> arr_closed_check o v spec (OText t) = true.
Proof. exact arr_closed_check_model. Qed.
Print Assumptions C20_array_closed_check_sound.

(* [1, [2, 3], 4] under %#a: the cells; width 3 breaks for size (the run "1" is short, the run "10" "20" is not):
   one space after the delimiter, every scalar on its own line *)
Example C20_array_closed_ex :
  let nl := [10%N] in
  let f := mkFormat true false false 97 0 (-1) (-1) 0 None None CfNone in
  let fw := mkFormat true false false 97 0 (-1) 3 0 None None CfNone in
  arr_layout_closed f default_indentation 91 [(false, lit "1"); (true, nl ++ lit "  [2, 3]"); (false, lit "4")]
  = lit "[1," ++ nl ++ lit "  [2, 3]," ++ nl ++ lit "  4]"
  /\ run_totals [(false, lit "1"); (true, lit "[]"); (false, lit "10"); (false, lit "20")] 0 = [1; 4]
  /\ arr_layout_closed fw default_indentation 91 [(false, lit "1"); (true, nl ++ lit "  []"); (false, lit "10"); (false, lit "20")]
  = lit "[ 1," ++ nl ++ lit "  []," ++ nl ++ lit "  10," ++ nl ++ lit "  20]"
  /\ format_value o0 (VArr [VInt 1; VArr []; VInt 10; VInt 20]) (FMap [(KArray, FEStr (lit "%#3a"))])
  = Some (OText (lit "[ 1," ++ nl ++ lit "  []," ++ nl ++ lit "  10," ++ nl ++ lit "  20]")).
Proof. vm_compute. repeat split. Qed.

(* nesting: a container child of an alternate Array starts on a new line at level + 1; a container under a Hash key or
   value never breaks (it follows ` => ` on the entry's line) *)
Theorem C20_nested_in_array_breaks :
  forall f ind f',
    f_alt f = true ->
    let own' := i_set_indenting (i_subsequent (child_ind f ind)) (f_alt f' || i_indenting (i_subsequent (child_ind f ind))) in
    i_breaks own' = true /\ i_level own' = S (i_level ind).
Proof. exact nested_in_array_breaks. Qed.
Print Assumptions C20_nested_in_array_breaks.

Theorem C20_nested_in_hash_no_break :
  forall f ind f',
    let own' := i_set_indenting (child_ind f ind) (f_alt f' || i_indenting (child_ind f ind)) in
    i_breaks own' = false /\ i_level own' = S (i_level ind).
Proof. exact nested_in_hash_no_break. Qed.
Print Assumptions C20_nested_in_hash_no_break.

Example C20_alternate_layout_ex :
  let nl := [10%N] in
  let sp := FMap [(KHash, FEStr (lit "%#h")); (KArray, FEStr (lit "%#a"))] in
  let h := VHash [(VStr (lit "a"), VInt 1); (VStr (lit "b"), VArr [VInt 2; VArr [VInt 3; VInt 4]; VInt 5])] in
  format_value o0 h sp =
  Some (OText (lit "{" ++ nl ++ lit "  'a' => 1," ++ nl ++ lit "  'b' => [2," ++ nl ++ lit "    [3, 4]," ++ nl ++ lit "    5]" ++ nl ++ lit "}"))
  /\ format_value o0 (VArr [VInt 1; VArr [VInt 2; VInt 3]; VInt 4]) sp =
     Some (OText (lit "[1," ++ nl ++ lit "  [2, 3]," ++ nl ++ lit "  4]")).
Proof. vm_compute. split; reflexivity. Qed.

(* --- one container instance at several positions (aliasing) ---------------------------------- *)

(* The implementation's values are graphs: the same *Array / *Hash instance may occur at several
   positions (px.EmptyArray, a sub-hash under two keys).  ToString2 carries a map of the instances
   being rendered (Model/FormatShare.v: `lvalue` = values with instance identities, `render_g` =
   ToString2 with the guard map as state).  For every value whose instances form no cycle
   (`lok []`; every value built from finished parts), every oracle and every specification the
   formatted text is the text of the tree the value unfolds to: an instance met again renders like
   a value of its own, never as "<recursive reference>".  (False before fix ee5842a: the 'a' case of
   Hash.ToString2 kept the hash in the guard map.) *)
Theorem C20_sharing_invisible :
  forall (o : oracle) (lv : lvalue) (spec : fspec),
    lok [] lv = true -> format_value_g o lv spec = format_value o (erase lv) spec.
Proof. exact sharing_invisible. Qed.
Print Assumptions C20_sharing_invisible.

(* every returning exit of Array.ToString2 / Hash.ToString2 hands the guard map back as it was *)
Theorem C20_guard_restored :
  forall n o ind m entries g lv g' s,
    lok g lv = true -> render_g n o ind m entries g lv = Some (ROk (g', s)) -> g' = g.
Proof. exact guard_restored. Qed.
Print Assumptions C20_guard_restored.

(* hence formatting is total on values with aliasing too *)
Theorem C20_format_total_shared :
  forall (o : oracle) (lv : lvalue) (spec : fspec),
    lok [] lv = true -> exists r, format_value_g o lv spec = Some r.
Proof. exact format_total_shared. Qed.
Print Assumptions C20_format_total_shared.

(* h = {'a' => 1} twice in an array, Hash under %a; the guard does fire on a cycle (the finite
   unrolling of an array holding itself), where `lok` is false *)
Example C20_sharing_ex :
  let h := LHash (Some 1%N) [(LTree (VStr (lit "a")), LTree (VInt 1))] in
  let spec := FMap [(KHash, FEStr (lit "%a"))] in
  lok [] (LArr None [h; h]) = true
  /\ format_value_g o0 (LArr None [h; h]) spec = Some (OText (lit "[[['a', 1]], [['a', 1]]]"))
  /\ lok [] (LArr (Some 7%N) [LArr (Some 7%N) []]) = false
  /\ format_value_g o0 (LArr (Some 7%N) [LArr (Some 7%N) []]) FDefault = Some (OText (lit "[<recursive reference>]")).
Proof. vm_compute. repeat split. Qed.

(* --- the sprintf style entry points: every directive renders as that directive alone ----------- *)

(* types.PuppetSprintf(format, args...) / PuppetFprintf (Model/FormatSprintf.v: `sp_run` is fprintf's walk over
   the runes of the format text, `sprintf` the call on a byte string).  A format text made of segments -
   literal runes (none is '%'), `%%`, and directives `%`body letter (body: any runes but ASCII letters, not
   starting with '%', '<' or '{') - applied to the argument list of the directives' values gives, for every
   number and order of segments, whatever directives and values came earlier in the same call:
   the literal text, '%', and for every directive the text `sp_apply` gives for that directive and that value
   ALONE (expect); the first directive that fails alone decides the error.  `sp_apply` is
   px.NewFormatContext3(value, directive) + ToString: C20_sprintf_single_is_format_value. *)
Theorem C20_sprintf_directives_alone :
  forall (segs : list seg) (pos : nat) (args : list value) (out : str),
    Forall pos_ok segs ->
    skipn pos args = flat_map seg_vals segs ->
    sp_run (map Some (flat_map seg_runes segs)) args MText pos false (flat_map seg_os segs) out = expect segs out.
Proof. exact sprintf_positional. Qed.
Print Assumptions C20_sprintf_directives_alone.

(* the keyed forms %<key>directive and %{key} (the default rendering) against the one Hash argument:
   every key (any runes but the closing '>' / '}') that the hash holds selects its value *)
Theorem C20_sprintf_keyed_directives_alone :
  forall (es : list (value * value)) (segs : list seg) (keyed : bool) (out : str),
    Forall (key_ok es) segs ->
    sp_run (map Some (flat_map seg_runes segs)) [VHash es] MText 0 keyed (flat_map seg_os segs) out = expect segs out.
Proof. exact sprintf_keyed. Qed.
Print Assumptions C20_sprintf_keyed_directives_alone.

(* on the level of the call, for format texts written in ASCII (the runes of the text are its bytes; other
   literal text is decoded by `runes`, tied by the correspondence) *)
Theorem C20_sprintf_text :
  forall (segs : list seg),
    Forall pos_ok segs -> Forall seg_ascii segs ->
    sprintf (flat_map seg_os segs) (format_text segs) (flat_map seg_vals segs) = expect segs [].
Proof. exact sprintf_positional_text. Qed.
Print Assumptions C20_sprintf_text.

Theorem C20_sprintf_keyed_text :
  forall (es : list (value * value)) (segs : list seg),
    Forall (key_ok es) segs -> Forall seg_ascii segs ->
    sprintf (flat_map seg_os segs) (format_text segs) [VHash es] = expect segs [].
Proof. exact sprintf_keyed_text. Qed.
Print Assumptions C20_sprintf_keyed_text.

(* the single rendering inside a call is format_value, the function all other theorems of this file are about;
   so when every directive alone gives a text, the call gives these texts, in order, between the literal text *)
Theorem C20_sprintf_single_is_format_value :
  forall (o : oracle) (v : value) (spec : fspec) (t : str),
    sp_apply o v spec = SpText t <-> format_value o v spec = Some (OText t).
Proof. exact sp_apply_text. Qed.
Print Assumptions C20_sprintf_single_is_format_value.

Theorem C20_sprintf_texts_in_order :
  forall (segs : list seg) (ts : list str) (out whole : str),
    Forall2 (fun x t => format_value (fst (fst x)) (snd (fst x)) (snd x) = Some (OText t)) (seg_specs segs) ts ->
    seg_texts segs ts = Some whole ->
    expect segs out = SpText (out ++ whole).
Proof. exact expect_texts. Qed.
Print Assumptions C20_sprintf_texts_in_order.

(* sprintf("%05d|%05d %%", 42, 7); the keyed form with a default rendering; the first failing directive decides *)
Example C20_sprintf_ex :
  sprintf [o0; o0] (lit "%05d|%05d %%") [VInt 42; VInt 7] = SpText (lit "00042|00007 %")
  /\ sprintf [o0; o0; o0] (lit "%<a>#x, %{b} and %<b>-4sX") [VHash [(VStr (lit "a"), VInt 255); (VStr (lit "b"), VStr (lit "c"))]]
     = SpText (lit "0xff, c and c   X")
  /\ sprintf [o0; o0; o0] (lit "%d %q %z") [VInt 1; VInt 2; VInt 3] = SpErr (SpFormat (EUnsupported 113 KdInteger))
  /\ sprintf [o0; o0] (lit "%d %") [VInt 1; VInt 2] = SpErr SpIllegalArgument
  /\ sprintf [o0; o0] (lit "%d %<k>d") [VInt 1; VInt 2] = SpErr SpIllegalArguments
  /\ Forall pos_ok [SDir [[48%N]; [53%N]] 100%N (VInt 42) o0; SLit [[124%N]]; SDir [[48%N]; [53%N]] 100%N (VInt 7) o0].
Proof. vm_compute. repeat split. repeat constructor. Qed.
