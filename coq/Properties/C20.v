(* Property C20: string formatting is total and faithful to the format directive.
   Statements only; the proofs are in Proofs/FormatProofs.v, the model in Model/Format.v. *)
From Coq Require Import String.
From Coq Require Import ZArith NArith Bool List.
From PcoreV Require Import Model.Base Model.Format Proofs.FormatProofs.
Import ListNotations.
Open Scope Z_scope.

(* --- the unsupported-format error is raised exactly outside the documented set ------------- *)

(* for every scalar value, every format (any flags, width, precision, letter) and every oracle:
   the scalar's ToString raises UnsupportedFormat(c, k) iff the format's letter is outside the
   documented set of the value's kind, and then c is that letter and k the kind's name *)
Theorem C20_unsupported_iff_outside_set :
  forall (o : oracle) (f : format) (v : value) (c : N) (k : kind),
    is_container v = false ->
    (render_scalar o f v = OErr (EUnsupported c k)
     <-> (supported (kind_of v) (f_char f) = false /\ c = f_char f /\ k = kind_of v)).
Proof. exact unsupported_iff. Qed.
Print Assumptions C20_unsupported_iff_outside_set.

(* the same through px.NewFormatContext3(value, directive) + ToString, for every directive string of
   the grammar (parse_format succeeds).  Float NaN is excluded: its inferred type Float[NaN, NaN]
   does not accept itself, so the directive is not the format that GetFormat selects (see design notes) *)
Theorem C20_unsupported_iff_directive :
  forall (o : oracle) (v : value) (s : str) (f : format) (c : N) (k : kind),
    is_container v = false -> is_nan_value v = false -> parse_format s None None CfNone = ROk f ->
    (format_value o v (FStr s) = Some (OErr (EUnsupported c k))
     <-> (supported (kind_of v) (f_char f) = false /\ c = f_char f /\ k = kind_of v)).
Proof. exact unsupported_iff_directive. Qed.
Print Assumptions C20_unsupported_iff_directive.

Example C20_unsupported_ex :
  format_value (mkOracle [] [] [] [] [] [] []) (VInt 5) (FStr (lit "%-8q")) = Some (OErr (EUnsupported 113 KdInteger))
  /\ format_value (mkOracle [] [] [] [] [] [] []) (VInt 255) (FStr (lit "%#010x")) = Some (OText (lit "0x00000000ff"))
  /\ format_value (mkOracle [] [] [] [] [] [] []) (VStr (lit "ab")) (FStr (lit "%-5s|")) = Some (OErr EInvalidSpec)
  /\ format_value (mkOracle [] [] [] [] [] [] []) (VStr (lit "ab")) (FStr (lit "%-5p")) = Some (OText (lit "'ab' ")).
Proof. vm_compute. repeat split. Qed.

(* --- radix renderings convert back ----------------------------------------------------------- *)

(* the digit string of every u < 2^64 (hence of |n| for every int64 n, MinInt64 included) in radix
   2, 8, 10 and 16, lower and upper case, consists of valid digits of that radix and denotes u *)
Theorem C20_digits_roundtrip :
  forall (base : Z) (upper : bool) (u : Z),
    In base [2; 8; 10; 16] -> 0 <= u < 2 ^ 64 ->
    exists dv, digit_vals base (digits base upper u) = Some dv /\ of_digits base dv = u.
Proof. exact digits_roundtrip. Qed.
Print Assumptions C20_digits_roundtrip.

Example C20_digits_ex :
  digits 16 true 9223372036854775808 = lit "8000000000000000"
  /\ int_new (lit "-0x8000000000000000") 16 = Some (-9223372036854775808).
Proof. vm_compute. split; reflexivity. Qed.
