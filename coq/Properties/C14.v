(* C14 — Contexts are confined to their goroutine and dynamic scope.
   This file holds ONLY the statements of the property theorems, each closed by `exact <lemma>`, with
   `Print Assumptions` beneath, and the non-vacuity examples.

   The model (Model/Ctx.v) is an interleaving machine: `step g c` is one atomic step of goroutine g (one
   statement, one scope entry, one scope exit = the deferred functions of that scope, a goroutine prologue or
   epilogue), `run sched c` performs the steps named by the schedule `sched : list gid`.  Every theorem below
   quantifies over ALL programs of ALL root goroutines (`roots : list (list prog)`, trees over Do / Try /
   DoWithContext / DoWithLoader / Fork / Go / threadlocal.Go / recover / Set / Delete / Push / Pop / SetLoader /
   Define / Observe / Panic) and over ALL schedules — proved by induction over the schedule with an invariant of
   the machine (Proofs/CtxProofs.v: `Inv`, `step_inv`). *)
From Coq Require Import ZArith NArith Bool List.
From PcoreV Require Import Model.Base Model.Ctx Proofs.CtxProofs.
Import ListNotations.
Local Open Scope nat_scope.

(* ---- current_is_established ---------------------------------------------------------------------------------- *)

(* Whenever goroutine g is about to execute a statement of a body (its stack top is the body frame `KSeq env ps`,
   env = the contexts handed to the enclosing bodies, innermost first), the current context of g — the entry
   "puppet.context" of ITS goroutine-local table — is exactly the context handed to that body (the one its
   Do/DoWithContext/Fork/Go established), and there is no current context when no body established one
   (env = []): under every schedule, at every nesting depth, also after inner scopes have returned or panicked. *)
Theorem C14_current_is_established :
  forall (roots : list (list prog)) (sched : list gid) g st env ps K,
    let c := run sched (init_config roots) in
    nth_error (gs c) g = Some st -> g_stack st = KSeq env ps :: K ->
    tl_get g (tls (sh c)) = hd_error env /\ Forall (fun a => a < length (cheap (sh c))) env.
Proof. intros roots sched g st env ps K. apply established_state. apply reachable_inv. Qed.
Print Assumptions C14_current_is_established.

(* The same on what the program observes: every observation recorded by any goroutine under any schedule reports
   as px.CurrentContext() the label of its lexical context (or none where none was established). *)
Theorem C14_observations_see_established :
  forall roots sched g st l cur lex,
    nth_error (gs (run sched (init_config roots))) g = Some st ->
    In (EObs l cur lex) (g_trace st) -> cur = option_map lo_ctx lex.
Proof. intros roots sched g st l cur lex. apply established_event. apply reachable_inv. Qed.
Print Assumptions C14_observations_see_established.

(* ---- restored_after: normal return AND panic ---------------------------------------------------------------------- *)

(* Let goroutine g be about to execute ANY statement p (a scope construct with an arbitrarily nested body, or a
   simple statement) with table entry t0 (no table / a table without a context / current context a).  Then along
   every continuation of the schedule (`scope_run`, Proofs/CtxProofs.v): g stays at p or inside the frames pushed
   by p, until the step by which it leaves p — to the continuation `resume false R` on normal return, or to
   `resume true R` (the next deferred function / recover point below) when p panics — and at that very moment its
   table entry is t0 again: the saved context is restored, a table created by DoWithContext is released, a table
   without a context is left without one. *)
Theorem C14_restored_after :
  forall roots sched0 g st env p ps K sched,
    let c := run sched0 (init_config roots) in
    nth_error (gs c) g = Some st -> g_stack st = KSeq env (p :: ps) :: K ->
    scope_run g (KSeq env (p :: ps) :: K) (KSeq env ps :: K) (tl_find g (tls (sh c))) sched c.
Proof.
  intros roots sched0 g st env p ps K sched c Eg EK.
  apply scope_run_gen; [apply reachable_inv|]. left. exists st. auto.
Qed.
Print Assumptions C14_restored_after.

(* ---- goroutine_local ------------------------------------------------------------------------------------------------ *)

(* A step of goroutine h writes no table entry but its own. *)
Theorem C14_goroutine_local_write :
  forall roots sched h g, h <> g ->
    let c := run sched (init_config roots) in
    tl_find g (tls (sh (step h c))) = tl_find g (tls (sh c)).
Proof. intros roots sched h g Hne c. apply step_writes_own; [apply reachable_inv|exact Hne]. Qed.
Print Assumptions C14_goroutine_local_write.

(* ... and reads none but its own: under EVERY schedule the machine with the shared goroutine-indexed table
   `tls` is, step by step, the machine `prun` in which every goroutine carries a private table entry that no other
   goroutine can name (`pstep g` hands to goroutine g the heaps and its own entry only).  So the current context of
   a goroutine can neither be observed nor be changed from another goroutine, whatever the interleaving: the
   schedule only decides the order in which the goroutines reach the shared heaps (contexts, loaders). *)
Theorem C14_goroutine_local :
  forall roots sched,
    private_view (run sched (init_config roots)) = prun sched (private_view (init_config roots)).
Proof. intros roots sched. apply run_private. apply init_inv. Qed.
Print Assumptions C14_goroutine_local.

(* ---- tls_released ------------------------------------------------------------------------------------------------------ *)

(* A goroutine that has ended — normally or by panic, forked by px.Fork / px.Go / threadlocal.Go or a plain root
   goroutine that called Do / DoWithContext — holds no goroutine-local table any more ... *)
Theorem C14_tls_released_each :
  forall roots sched g st,
    let c := run sched (init_config roots) in
    nth_error (gs c) g = Some st -> g_stack st = [] -> tl_find g (tls (sh c)) = None.
Proof. intros roots sched g st c. apply released_each. apply reachable_inv. Qed.
Print Assumptions C14_tls_released_each.

(* ... so once all goroutines have ended, the number of tables (threadlocal.LiveTables) is what it was before the
   roots started: 0. *)
Theorem C14_tls_released :
  forall roots sched,
    let c := run sched (init_config roots) in
    finished c = true -> live_tables (tls (sh c)) = live_tables (tls (sh (init_config roots))).
Proof.
  intros roots sched c Hf. rewrite (released_all c (reachable_inv roots sched) Hf).
  symmetry. apply live_tables_zero. intros g. apply tl_find_all_none.
Qed.
Print Assumptions C14_tls_released.

(* The goroutine-local table is never found missing by px code (threadlocal.Set never panics with "thread local
   not initialized"): no trace of any goroutine under any schedule contains that panic. *)
Theorem C14_storage_never_missing :
  forall roots sched g st,
    nth_error (gs (run sched (init_config roots))) g = Some st -> ~ In (EPanic PNoTable) (g_trace st).
Proof. intros roots sched g st. apply no_table_panic. apply reachable_inv. Qed.
Print Assumptions C14_storage_never_missing.

(* ---- non-vacuity ---------------------------------------------------------------------------------------------------------- *)

(* One root goroutine: Observe; Do { Set; Observe; Fork {Observe; Set; Observe; panic}; Set;
   recover { DoWithContext(fork) {Observe; panic} }; Observe }; Observe — run round-robin with its child. *)
Definition ex_roots : list (list prog) :=
  [[PObserve 1%N;
    PDo 2%N false [PSet 0%N 1%Z; PObserve 3%N;
                   PFork 4%N [PObserve 5%N; PSet 0%N 2%Z; PObserve 6%N; PPanic];
                   PSet 0%N 3%Z;
                   PTry [PDoCtx 7%N CFork [PObserve 8%N; PPanic]];
                   PObserve 9%N];
    PObserve 10%N]].
Definition ex_sched : list gid := flat_map (fun _ => [0; 1]) (seq 0 20).

Definition obs_of (e : event) : list (label * option label * option (list (option val))) :=
  match e with EObs l cur lex => [(l, cur, option_map lo_vars lex)] | _ => [] end.

(* what is observed: the established context at every level, restored after the return of Do (Observe 10: none)
   and after the recovered panic of DoWithContext (Observe 9: the context of Do again); the child starts from the
   parent's variables (k0 = 1) and its own Set is invisible to the parent (k0 = 3 at Observe 8 and 9, not 2) *)
Example C14_nonvacuous_observations :
  map (fun tr => flat_map obs_of tr) (traces (run ex_sched (init_config ex_roots))) =
  [[(1%N, None, None);
    (3%N, Some 2%N, Some [Some 1%Z; None; None]);
    (8%N, Some 7%N, Some [Some 3%Z; None; None]);
    (9%N, Some 2%N, Some [Some 3%Z; None; None]);
    (10%N, None, None)];
   [(5%N, Some 4%N, Some [Some 1%Z; None; None]);
    (6%N, Some 4%N, Some [Some 2%Z; None; None])]].
Proof. vm_compute. reflexivity. Qed.

(* tables: none, then 1 (Do on a goroutine without a table creates one), 2 (the forked goroutine), 1, 0 *)
Example C14_nonvacuous_released :
  let c := run ex_sched (init_config ex_roots) in
  finished c = true /\ live_tables (tls (sh c)) = 0 /\
  map (fun n => live_tables (tls (sh (run (firstn n ex_sched) (init_config ex_roots))))) [0; 3; 10; 20; 25] =
  [0; 1; 2; 1; 0].
Proof. vm_compute. auto. Qed.

(* the hypothesis of C14_restored_after is satisfiable, for a scope that is left by a panic: after 12 steps
   goroutine 0 is about to execute `recover { DoWithContext(fork) {Observe; panic} }` with the context of Do
   current; it is the same entry when the panic has been recovered (5 steps of goroutine 0 later) *)
Example C14_nonvacuous_restored :
  let c := run (firstn 12 ex_sched) (init_config ex_roots) in
  let c' := run [0; 0; 0; 0; 0] c in
  (exists st ps K, nth_error (gs c) 0 = Some st /\
      g_stack st = KSeq [1] (PTry [PDoCtx 7%N CFork [PObserve 8%N; PPanic]] :: ps) :: K) /\
  tl_find 0 (tls (sh c)) = Some (Some 1) /\
  tl_find 0 (tls (sh (run [0; 0] c))) = Some (Some 3) /\
  tl_find 0 (tls (sh c')) = Some (Some 1) /\
  option_map (fun st => hd_error (g_trace st)) (nth_error (gs c') 0) = Some (Some (EPanic PUser)).
Proof. vm_compute. split; [eexists _, _, _; split; reflexivity|auto]. Qed.
