(* C14 — Contexts are confined to their goroutine and dynamic scope.
   This file holds ONLY the statements of the property theorems, each closed by `exact <lemma>`, with
   `Print Assumptions` beneath, and the non-vacuity examples.

   The model (Model/Ctx.v) is an interleaving machine: `step g c` is one atomic step of goroutine g (one
   statement, one scope entry, one scope exit = the deferred functions of that scope, a goroutine prologue or
   epilogue), `run sched c` performs the steps named by the schedule `sched : list gid`.  Every theorem below
   quantifies over ALL programs of ALL root goroutines (`roots : list (list prog)`, trees over Do / Try /
   DoWithContext / DoWithLoader / Fork / Go / threadlocal.Go / recover / Set / Delete / Push / Pop / SetLoader /
   Define / Observe / Panic) and over ALL schedules — proved by induction over the schedule with an invariant of
   the machine (Proofs/CtxProofs.v: `Inv`, `step_inv`). *)
From Coq Require Import ZArith NArith Bool List.
From PcoreV Require Import Model.Base Model.Ctx Proofs.CtxProofs Proofs.CtxIsolation Proofs.CtxTermination.
From PcoreV Require Import Model.CtxGid Proofs.CtxGidProofs.
Import ListNotations.
Local Open Scope nat_scope.

(* ---- current_is_established ---------------------------------------------------------------------------------- *)

(* Whenever goroutine g is about to execute a statement of a body (its stack top is the body frame `KSeq env ps`,
   env = the contexts handed to the enclosing bodies, innermost first), the current context of g — the entry
   "puppet.context" of ITS goroutine-local table — is exactly the context handed to that body (the one its
   Do/DoWithContext/Fork/Go established), and there is no current context when no body established one
   (env = []): under every schedule, at every nesting depth, also after inner scopes have returned or panicked. *)
Theorem C14_current_is_established :
  forall (roots : list (list prog)) (sched : list gid) g st env ps K,
    let c := run sched (init_config roots) in
    nth_error (gs c) g = Some st -> g_stack st = KSeq env ps :: K ->
    tl_get g (tls (sh c)) = hd_error env /\ Forall (fun a => a < length (cheap (sh c))) env.
Proof. intros roots sched g st env ps K. apply established_state. apply reachable_inv. Qed.
Print Assumptions C14_current_is_established.

(* The same on what the program observes: every observation recorded by any goroutine under any schedule reports
   as px.CurrentContext() the label of its lexical context (or none where none was established). *)
Theorem C14_observations_see_established :
  forall roots sched g st l cur lex,
    nth_error (gs (run sched (init_config roots))) g = Some st ->
    In (EObs l cur lex) (g_trace st) -> cur = option_map lo_ctx lex.
Proof. intros roots sched g st l cur lex. apply established_event. apply reachable_inv. Qed.
Print Assumptions C14_observations_see_established.

(* ---- restored_after: normal return, panic AND runtime.Goexit ---------------------------------------------------------------------- *)

(* Let goroutine g be about to execute ANY statement p (a scope construct with an arbitrarily nested body, or a
   simple statement) with table entry t0 (no table / a table without a context / current context a).  Then along
   every continuation of the schedule (`scope_run`, Proofs/CtxProofs.v): g stays at p or inside the frames pushed
   by p, until the step by which it leaves p — to the continuation `resume false R` on normal return, to
   `resume true R` (the next deferred function / recover point below) when p panics, or to `resume true (notry R)`
   (the next deferred function below; the recover points are inert) when runtime.Goexit was called in p — and at that
   very moment its table entry is t0 again: the saved context is restored, a table created by DoWithContext is
   released, a table without a context is left without one.  (`inside g (notry R)`: still inside p, after a Goexit.) *)
Theorem C14_restored_after :
  forall roots sched0 g st env p ps K sched,
    let c := run sched0 (init_config roots) in
    nth_error (gs c) g = Some st -> g_stack st = KSeq env (p :: ps) :: K ->
    scope_run g (KSeq env (p :: ps) :: K) (KSeq env ps :: K) (tl_find g (tls (sh c))) sched c.
Proof.
  intros roots sched0 g st env p ps K sched c Eg EK.
  apply scope_run_gen; [apply reachable_inv|]. left. exists st. auto.
Qed.
Print Assumptions C14_restored_after.

(* ---- goroutine_local ------------------------------------------------------------------------------------------------ *)

(* A step of goroutine h writes no table entry but its own. *)
Theorem C14_goroutine_local_write :
  forall roots sched h g, h <> g ->
    let c := run sched (init_config roots) in
    tl_find g (tls (sh (step h c))) = tl_find g (tls (sh c)).
Proof. intros roots sched h g Hne c. apply step_writes_own; [apply reachable_inv|exact Hne]. Qed.
Print Assumptions C14_goroutine_local_write.

(* ... and reads none but its own: under EVERY schedule the machine with the shared goroutine-indexed table
   `tls` is, step by step, the machine `prun` in which every goroutine carries a private table entry that no other
   goroutine can name (`pstep g` hands to goroutine g the heaps and its own entry only).  So the current context of
   a goroutine can neither be observed nor be changed from another goroutine, whatever the interleaving: the
   schedule only decides the order in which the goroutines reach the shared heaps (contexts, loaders). *)
Theorem C14_goroutine_local :
  forall roots sched,
    private_view (run sched (init_config roots)) = prun sched (private_view (init_config roots)).
Proof. intros roots sched. apply run_private. apply init_inv. Qed.
Print Assumptions C14_goroutine_local.

(* ---- tls_released ------------------------------------------------------------------------------------------------------ *)

(* A goroutine that has ended — normally, by panic or by runtime.Goexit (`PGoexit` is a statement of the programs
   quantified over), forked by px.Fork / px.Go / threadlocal.Go or a plain root
   goroutine that called Do / DoWithContext — holds no goroutine-local table any more ... *)
Theorem C14_tls_released_each :
  forall roots sched g st,
    let c := run sched (init_config roots) in
    nth_error (gs c) g = Some st -> g_stack st = [] -> tl_find g (tls (sh c)) = None.
Proof. intros roots sched g st c. apply released_each. apply reachable_inv. Qed.
Print Assumptions C14_tls_released_each.

(* ... so once all goroutines have ended, the number of tables (threadlocal.LiveTables) is what it was before the
   roots started: 0. *)
Theorem C14_tls_released :
  forall roots sched,
    let c := run sched (init_config roots) in
    finished c = true -> live_tables (tls (sh c)) = live_tables (tls (sh (init_config roots))).
Proof.
  intros roots sched c Hf. rewrite (released_all c (reachable_inv roots sched) Hf).
  symmetry. apply live_tables_zero. intros g. apply tl_find_all_none.
Qed.
Print Assumptions C14_tls_released.

(* The hypothesis `finished` can always be met: every step of a goroutine that has not ended consumes a statement or
   a frame (Proofs/CtxTermination.v), so every reachable configuration has a continuation of the schedule that ends
   all goroutines — and then no goroutine-local table is left. *)
Theorem C14_tls_released_eventually :
  forall roots sched0, exists sched,
    let c := run (sched0 ++ sched) (init_config roots) in
    finished c = true /\ live_tables (tls (sh c)) = 0.
Proof.
  intros roots sched0. destruct (can_finish (run sched0 (init_config roots))) as [sched Hf].
  exists sched. unfold run in *. rewrite fold_left_app. split; [exact Hf|].
  apply released_all; [|exact Hf]. apply run_inv. apply reachable_inv.
Qed.
Print Assumptions C14_tls_released_eventually.

(* runtime.Goexit is not stopped by any recover point.  The step that executes Goexit leaves below the statement the
   frames `exit_stack PGoexit K = notry K`, which hold no recover point; and an unwinding over frames without a
   recover point stops only in front of a deferred function (still unwinding: `true`), at the goroutine epilogue
   (the deferred Cleanup of px.Fork / threadlocal.Go) or at the end of the stack, and what it leaves again holds no
   recover point.  So after Goexit no statement of the goroutine is executed any more: all that runs are the deferred
   functions of the enclosing scopes and the epilogue — after which the table is gone (C14_tls_released_each). *)
Theorem C14_goexit_never_recovered :
  (forall K, exit_stack PGoexit K = notry K /\ ~ In KTry (notry K)) /\
  (forall K, ~ In KTry K -> exit_stop (unwind K) /\ ~ In KTry (snd (unwind K))).
Proof. split; [intros K; split; [reflexivity|apply notry_no_try]|exact unwind_no_try]. Qed.
Print Assumptions C14_goexit_never_recovered.

(* The goroutine-local table is never found missing by px code (threadlocal.Set never panics with "thread local
   not initialized"): no trace of any goroutine under any schedule contains that panic. *)
Theorem C14_storage_never_missing :
  forall roots sched g st,
    nth_error (gs (run sched (init_config roots))) g = Some st -> ~ In (EPanic PNoTable) (g_trace st).
Proof. intros roots sched g st. apply no_table_panic. apply reachable_inv. Qed.
Print Assumptions C14_storage_never_missing.

(* ---- never observed from another goroutine; fork_isolated --------------------------------------------------- *)

(* `owned c g st`: the contexts goroutine g can get hold of — its current one and those named by its frames
   (lexical contexts of the enclosing bodies, contexts saved for restoring).  Every context belongs to ONE
   goroutine: a context forked for a new goroutine belongs to the child alone, never to parent or siblings. *)
Theorem C14_contexts_have_one_owner :
  forall roots sched g h stg sth a,
    let c := run sched (init_config roots) in
    g <> h -> nth_error (gs c) g = Some stg -> nth_error (gs c) h = Some sth ->
    In a (owned c g stg) -> ~ In a (owned c h sth).
Proof.
  intros roots sched g h stg sth a c Hne Eg Eh Ha Hb.
  exact (own_disj c (reachable_own roots sched) g h stg sth a Hne Eg Eh Ha Hb).
Qed.
Print Assumptions C14_contexts_have_one_owner.

(* In particular the current context of a goroutine is never the current context of another goroutine. *)
Theorem C14_never_observed_elsewhere :
  forall roots sched g h a,
    let c := run sched (init_config roots) in
    g <> h -> tl_get g (tls (sh c)) = Some a -> tl_get h (tls (sh c)) <> Some a.
Proof.
  intros roots sched g h a c. apply current_not_shared; [apply reachable_inv|apply reachable_own].
Qed.
Print Assumptions C14_never_observed_elsewhere.

(* fork_isolated, contexts: a step of goroutine h — Set, Delete, StackPush, StackPop, SetLoader, DoWithLoader and
   its restore, anything — leaves every context of every other goroutine g exactly as it is: variables, stack
   frames and loader of a forked context are invisible to parent and siblings, and theirs to it ... *)
Theorem C14_fork_isolated_step :
  forall roots sched g h st a,
    let c := run sched (init_config roots) in
    h <> g -> nth_error (gs c) g = Some st -> In a (owned c g st) ->
    nth_error (cheap (sh (step h c))) a = nth_error (cheap (sh c)) a.
Proof.
  intros roots sched g h st a c. apply step_ctx_isolated; [apply reachable_inv|apply reachable_own].
Qed.
Print Assumptions C14_fork_isolated_step.

(* ... for as long as the others run: over ANY schedule in which g itself makes no step, each of g's contexts,
   g's state and g's table entry stay what they were. *)
Theorem C14_fork_isolated :
  forall roots sched0 g sched st a,
    let c := run sched0 (init_config roots) in
    ~ In g sched -> nth_error (gs c) g = Some st -> In a (owned c g st) ->
    nth_error (cheap (sh (run sched c))) a = nth_error (cheap (sh c)) a /\
    nth_error (gs (run sched c)) g = Some st /\
    tl_find g (tls (sh (run sched c))) = tl_find g (tls (sh c)).
Proof.
  intros roots sched0 g sched st a c. apply run_ctx_isolated; [apply reachable_inv|apply reachable_own].
Qed.
Print Assumptions C14_fork_isolated.

(* The parent's earlier ones are visible to the child: the step px.Fork(lexical context a) / px.Go (context a
   current) starts a goroutine whose context is a NEW context fa that has the parent's variables and stack frames
   as they are at that moment, and finds through its own new loader every definition the parent's context finds;
   the parent's context is untouched. *)
Theorem C14_fork_inherits :
  forall roots sched g st env stmt lbl body ps K a ctx,
    let c := run sched (init_config roots) in
    nth_error (gs c) g = Some st -> g_stack st = KSeq env (stmt :: ps) :: K ->
    (stmt = PFork lbl body /\ hd_error env = Some a) \/ (stmt = PGo lbl body /\ tl_get g (tls (sh c)) = Some a) ->
    nth_error (cheap (sh c)) a = Some ctx ->
    let c' := step g c in let fa := length (cheap (sh c)) in
    nth_error (gs c') (length (gs c)) = Some (child_state fa body) /\
    exists cf, nth_error (cheap (sh c')) fa = Some cf /\
      c_vars cf = c_vars ctx /\ c_stack cf = c_stack ctx /\
      (forall n, load (lheap (sh c')) (c_loader cf) n = load (lheap (sh c)) (c_loader ctx) n) /\
      c_loader cf = length (lheap (sh c)) /\ nth_error (cheap (sh c')) a = Some ctx.
Proof.
  intros roots sched g st env stmt lbl body ps K a ctx c. apply fork_inherits. apply reachable_linv.
Qed.
Print Assumptions C14_fork_inherits.

(* fork_isolated, definitions.  `Blind x c h`: no context of goroutine h has a loader that sees loader x (x is
   neither that loader nor one of its ancestors), nor will DoWithLoader restore such a loader.
   (1) Right after the fork, the loader Lc of the forked context is seen by the child alone; and under every
   continuation of the schedule every goroutine that exists at that moment — the parent, the elder siblings,
   everybody but the child — stays blind for Lc, whatever SetLoader / DoWithLoader / Fork they or the child do. *)
Theorem C14_fork_isolated_loader :
  forall roots sched0 g st env stmt lbl body ps K a ctx i st' sched,
    let c := run sched0 (init_config roots) in
    nth_error (gs c) g = Some st -> g_stack st = KSeq env (stmt :: ps) :: K ->
    (stmt = PFork lbl body /\ hd_error env = Some a) \/ (stmt = PGo lbl body /\ tl_get g (tls (sh c)) = Some a) ->
    nth_error (cheap (sh c)) a = Some ctx ->
    i <> length (gs c) -> nth_error (gs (step g c)) i = Some st' ->
    Blind (length (lheap (sh c))) (run sched (step g c)) i.
Proof.
  intros roots sched0 g st env stmt lbl body ps K a ctx i st' sched c.
  apply fork_blind_run; [apply reachable_inv|apply reachable_own|apply reachable_linv].
Qed.
Print Assumptions C14_fork_isolated_loader.

(* (2) Blindness is kept under every schedule and inherited by every goroutine a blind goroutine forks: the
   siblings forked later by the parent are blind for Lc as well. *)
Theorem C14_fork_isolated_loader_inherited :
  forall roots sched0 x h,
    let c := run sched0 (init_config roots) in
    0 < x < length (lheap (sh c)) -> Blind x c h ->
    (forall sched, Blind x (run sched c) h) /\
    (forall ch sched, nth_error (gs (step h c)) (length (gs c)) = Some ch ->
                      Blind x (run sched (step h c)) (length (gs c))).
Proof.
  intros roots sched0 x h c.
  apply blind_inherited; [apply reachable_inv|apply reachable_own|apply reachable_linv].
Qed.
Print Assumptions C14_fork_isolated_loader_inherited.

(* (3) Definitions are visible along the loader chain only: a step of goroutine d changes what a loader lb finds
   (for any name) only if it is a statement of d acting on a context whose loader lb sees. *)
Theorem C14_definitions_follow_loader_chain :
  forall roots sched d lb,
    let c := run sched (init_config roots) in
    lb < length (lheap (sh c)) ->
    (forall n, load (lheap (sh (step d c))) lb n = load (lheap (sh c)) lb n) \/
    (exists st env p ps K a ctx, nth_error (gs c) d = Some st /\ g_stack st = KSeq env (p :: ps) :: K /\
       hd_error env = Some a /\ nth_error (cheap (sh c)) a = Some ctx /\ sees (lheap (sh c)) lb (c_loader ctx)).
Proof. intros roots sched d lb c. apply step_load_frame. apply reachable_linv. Qed.
Print Assumptions C14_definitions_follow_loader_chain.

(* (1)+(2)+(3): a definition made in the forked context — through any context whose loader sees Lc, i.e. the
   forked context itself or one derived from it by the child and its descendants — changes nothing that a context
   of a goroutine blind for Lc (parent, siblings) can load. *)
Theorem C14_fork_isolated_definitions :
  forall roots sched x d h st b cb,
    let c := run sched (init_config roots) in
    Blind x c h -> nth_error (gs c) h = Some st -> In b (owned c h st) -> nth_error (cheap (sh c)) b = Some cb ->
    (forall std env p ps K a ctx, nth_error (gs c) d = Some std -> g_stack std = KSeq env (p :: ps) :: K ->
       hd_error env = Some a -> nth_error (cheap (sh c)) a = Some ctx -> sees (lheap (sh c)) (c_loader ctx) x) ->
    forall n, load (lheap (sh (step d c))) (c_loader cb) n = load (lheap (sh c)) (c_loader cb) n.
Proof.
  intros roots sched x d h st b cb c. apply blind_load_frame; [apply reachable_inv|apply reachable_linv].
Qed.
Print Assumptions C14_fork_isolated_definitions.

(* ---- non-vacuity ---------------------------------------------------------------------------------------------------------- *)

(* One root goroutine: Observe; Do { Set; Observe; Fork {Observe; Set; Observe; panic}; Set;
   recover { DoWithContext(fork) {Observe; panic} }; Observe }; Observe — run round-robin with its child. *)
Definition ex_roots : list (list prog) :=
  [[PObserve 1%N;
    PDo 2%N false [PSet 0%N 1%Z; PObserve 3%N;
                   PFork 4%N [PObserve 5%N; PSet 0%N 2%Z; PObserve 6%N; PPanic];
                   PSet 0%N 3%Z;
                   PTry [PDoCtx 7%N CFork [PObserve 8%N; PPanic]];
                   PObserve 9%N];
    PObserve 10%N]].
Definition ex_sched : list gid := flat_map (fun _ => [0; 1]) (seq 0 20).

Definition obs_of (e : event) : list (label * option label * option (list (option val))) :=
  match e with EObs l cur lex => [(l, cur, option_map lo_vars lex)] | _ => [] end.

(* what is observed: the established context at every level, restored after the return of Do (Observe 10: none)
   and after the recovered panic of DoWithContext (Observe 9: the context of Do again); the child starts from the
   parent's variables (k0 = 1) and its own Set is invisible to the parent (k0 = 3 at Observe 8 and 9, not 2) *)
Example C14_nonvacuous_observations :
  map (fun tr => flat_map obs_of tr) (traces (run ex_sched (init_config ex_roots))) =
  [[(1%N, None, None);
    (3%N, Some 2%N, Some [Some 1%Z; None; None]);
    (8%N, Some 7%N, Some [Some 3%Z; None; None]);
    (9%N, Some 2%N, Some [Some 3%Z; None; None]);
    (10%N, None, None)];
   [(5%N, Some 4%N, Some [Some 1%Z; None; None]);
    (6%N, Some 4%N, Some [Some 2%Z; None; None])]].
Proof. vm_compute. reflexivity. Qed.

(* tables: none, then 1 (Do on a goroutine without a table creates one), 2 (the forked goroutine), 1, 0 *)
Example C14_nonvacuous_released :
  let c := run ex_sched (init_config ex_roots) in
  finished c = true /\ live_tables (tls (sh c)) = 0 /\
  map (fun n => live_tables (tls (sh (run (firstn n ex_sched) (init_config ex_roots))))) [0; 3; 10; 20; 25] =
  [0; 1; 2; 1; 0].
Proof. vm_compute. auto. Qed.

(* runtime.Goexit in a forked goroutine, inside recover { DoWithContext(fork) { .. } }: the goroutine observes once,
   calls Goexit, and nothing of it runs afterwards although a recover point encloses the call; the step after Goexit
   runs the deferred restore of DoWithContext (context 2 of the fork is current again), the next the epilogue: the
   table is gone.  The parent then finishes; no table is left. *)
Definition gx_roots : list (list prog) :=
  [[PDo 1%N false [PSet 0%N 1%Z;
                   PFork 3%N [PTry [PDoCtx 5%N CFork [PObserve 6%N; PGoexit; PObserve 8%N]; PObserve 9%N]; PObserve 10%N];
                   PObserve 11%N]]].
Example C14_nonvacuous_goexit :
  let c5 := run [0; 0; 0; 1; 1; 1; 1; 1] (init_config gx_roots) in
  let c6 := step 1 c5 in let c7 := step 1 c6 in
  let cf := run [0; 0; 0] c7 in
  tl_find 1 (tls (sh c5)) = Some (Some 3) /\
  option_map g_stack (nth_error (gs c5) 1) =
    Some [KDefer [XRestore 2]; KSeq [2] [PObserve 9%N]; KSeq [2] [PObserve 10%N]; KEnd true] /\
  tl_find 1 (tls (sh c6)) = Some (Some 2) /\ option_map g_stack (nth_error (gs c6) 1) = Some [KEnd true] /\
  tl_find 1 (tls (sh c7)) = None /\
  option_map (fun st => map (fun e => match e with EObs l _ _ => Some l | _ => None end) (rev (g_trace st)))
             (nth_error (gs c7) 1) = Some [Some 6%N; None; None] /\
  option_map (fun st => hd_error (tl (g_trace st))) (nth_error (gs c7) 1) = Some (Some (EPanic PExit)) /\
  finished cf = true /\ live_tables (tls (sh cf)) = 0.
Proof. vm_compute. auto 12. Qed.

(* the hypothesis of C14_restored_after is satisfiable, for a scope that is left by a panic: after 12 steps
   goroutine 0 is about to execute `recover { DoWithContext(fork) {Observe; panic} }` with the context of Do
   current; it is the same entry when the panic has been recovered (5 steps of goroutine 0 later) *)
Example C14_nonvacuous_restored :
  let c := run (firstn 12 ex_sched) (init_config ex_roots) in
  let c' := run [0; 0; 0; 0; 0] c in
  (exists st ps K, nth_error (gs c) 0 = Some st /\
      g_stack st = KSeq [1] (PTry [PDoCtx 7%N CFork [PObserve 8%N; PPanic]] :: ps) :: K) /\
  tl_find 0 (tls (sh c)) = Some (Some 1) /\
  tl_find 0 (tls (sh (run [0; 0] c))) = Some (Some 3) /\
  tl_find 0 (tls (sh c')) = Some (Some 1) /\
  option_map (fun st => hd_error (g_trace st)) (nth_error (gs c') 0) = Some (Some (EPanic PUser)).
Proof. vm_compute. split; [eexists _, _, _; split; reflexivity|auto]. Qed.

(* the hypotheses of C14_fork_inherits / C14_fork_isolated_loader are satisfiable: after 8 steps goroutine 0 is
   about to execute px.Fork with its lexical context 1 (k0 = 1); the step creates goroutine 1 with the new context 2
   (k0 = 1 inherited) and the new loader 2; after that step goroutine 0 is blind for loader 2 *)
Example C14_nonvacuous_fork :
  let c := run (firstn 8 ex_sched) (init_config ex_roots) in
  (exists st body ps K, nth_error (gs c) 0 = Some st /\ g_stack st = KSeq [1] (PFork 4%N body :: ps) :: K) /\
  option_map c_vars (nth_error (cheap (sh c)) 1) = Some [(0%N, 1%Z)] /\
  length (gs c) = 1 /\ length (cheap (sh c)) = 2 /\ length (lheap (sh c)) = 2 /\
  option_map c_vars (nth_error (cheap (sh (step 0 c))) 2) = Some [(0%N, 1%Z)] /\
  option_map c_loader (nth_error (cheap (sh (step 0 c))) 2) = Some 2 /\
  option_map c_loader (nth_error (cheap (sh (step 0 c))) 1) = Some 1.
Proof. vm_compute. split; [eexists _, _, _, _; split; reflexivity|auto 10]. Qed.

(* definitions: the child finds what the parent defined before the fork (n0 = 10) and its own (n1 = 20); the
   parent does not find the child's definition, before or after *)
Definition ex_roots2 : list (list prog) :=
  [[PDo 1%N false [PDefine 0%N 10%Z; PFork 2%N [PDefine 1%N 20%Z; PObserve 3%N]; PObserve 4%N]]].
Definition loads_of (e : event) : list (label * option (list lres)) :=
  match e with EObs l _ lex => [(l, option_map lo_loads lex)] | _ => [] end.
Example C14_nonvacuous_definitions :
  map (fun tr => flat_map loads_of tr)
      (traces (run [0; 0; 0; 1; 1; 1; 1; 0; 0; 0] (init_config ex_roots2))) =
  [[(4%N, Some [LFound 10%Z; LMissing; LMissing])];
   [(3%N, Some [LFound 10%Z; LFound 20%Z; LMissing])]].
Proof. vm_compute. reflexivity. Qed.

(* ---- the goroutine id: threadlocal/gid.go:14 getg() -------------------------------------------------------------- *)

(* The machine above indexes the goroutine-local tables by the goroutine.  In gid.go the index is what getg() reads
   from the first line of runtime.Stack, "goroutine <id> [<status>]:", through a buffer of 64 bytes.  For EVERY
   goid the runtime can hand out (1 .. 2^63-1; it numbers the goroutines of a process consecutively) and every
   rest of the stack text, getg() returns exactly that goid, without overflow and without the panic of gid.go:28:
   the numeral (at most 19 digits) lies inside the buffer behind the 10 bytes of "goroutine ". *)
Theorem C14_getg_exact :
  forall (id : N) (tail : list N),
    (0 < id)%N -> (id <= max_goid)%N -> getg id tail = Some (Z.of_N id).
Proof. exact getg_exact. Qed.
Print Assumptions C14_getg_exact.

(* the same for any buffer length that holds prefix and numeral - and only for those (see the example below) *)
Theorem C14_getg_of_exact :
  forall (buflen : nat) (id : N) (tail : list N),
    (0 < id)%N -> (id <= max_goid)%N -> prefix_len + length (digits id) <= buflen ->
    getg_of buflen (stack_text id tail) = Some (Z.of_N id).
Proof. exact getg_of_exact. Qed.
Print Assumptions C14_getg_of_exact.

(* Hence the keys of the tables of different goroutines differ: with any injective numbering `goid` of the
   goroutines by the runtime, the key read by goroutine g exists and equals the key read by h only if g = h - the
   table of gid.go indexed by getg() is the table of Model/Ctx.v indexed by the goroutine, so no goroutine ever
   reads or replaces the current context of another one through a shared key. *)
Theorem C14_getg_keys_distinct :
  forall (goid : nat -> N) (tail : nat -> list N),
    (forall g, 0 < goid g <= max_goid)%N -> (forall g h, goid g = goid h -> g = h) ->
    forall g h, (exists k, getg (goid g) (tail g) = Some k) /\
                (getg (goid g) (tail g) = getg (goid h) (tail h) -> g = h).
Proof. exact getg_keys_distinct. Qed.
Print Assumptions C14_getg_keys_distinct.

(* non-vacuity: the model computes ids of 1 to 19 digits; and the buffer length matters - with 16 bytes the
   numeral of a goid of seven digits is cut and the goroutines 1000160 .. 1000169 would share one key *)
Example C14_nonvacuous_getg :
  map (fun id => getg id [91; 114; 117; 110; 110; 105; 110; 103; 93; 58; 10]%N)
      [7; 999999; 1000000; 1000160; 1000161; 9223372036854775807]%N =
  [Some 7; Some 999999; Some 1000000; Some 1000160; Some 1000161; Some 9223372036854775807]%Z /\
  stack_text 1000160 [91; 114; 117; 110; 110; 105; 110; 103; 93; 58; 10]%N =
  [103; 111; 114; 111; 117; 116; 105; 110; 101; 32; 49; 48; 48; 48; 49; 54; 48; 32;
   91; 114; 117; 110; 110; 105; 110; 103; 93; 58; 10]%N /\
  getg_of 16 (stack_text 1000160 []) = Some 100016%Z /\ getg_of 16 (stack_text 1000161 []) = Some 100016%Z /\
  getg_of 10 (stack_text 5 []) = None.
Proof. vm_compute. auto. Qed.

(* ---- restored for EVERY argument and EVERY body: bodies that do not nest properly (Model/CtxRoot.v) ------------------- *)
From PcoreV Require Import Model.CtxRoot Proofs.CtxRootProofs.

(* px.DoWithContext(a, body) - the functions dwc_enter / run_dact of the interleaving machine - leaves the goroutine's
   table entry EXACTLY as it found it (saved context current again / table without a context / no table), whatever
   the argument is - the context that is current at the call (ACur), a new one (ANew), the one of an enclosing
   DoWithContext (AOuter k) - and whatever the body does short of threadlocal.Cleanup: pcore.RootContext() (a new table
   and another context left current), threadlocal.Init / Set / Delete, nested DoWithContext / pcore.Do / Try /
   DoWithParent / TryWithParent with any argument and any such body, and whether the body returns or panics (the state
   after `eval` is the state after the deferred function has run; r_pan tells which of the two).  `one`: the state is
   the one of a goroutine, a single table entry. *)
Theorem C14_restored_any_argument_any_body :
  forall (a : rarg) (body : list rop) (st : rst),
    one (r_tbl st) -> r_tbl (eval (RDwc a body) st) = r_tbl st.
Proof. exact dwc_restores_any. Qed.
Print Assumptions C14_restored_any_argument_any_body.

(* ... and inside, at the first statement of the body, the argument is the current context, for every entry found
   (and threadlocal.Set does not panic) *)
Theorem C14_established_any_argument :
  forall (c : addr) (e : option table),
    tl_get 0 (fst (fst (dwc_enter 0 c [e]))) = Some c /\ snd (dwc_enter 0 c [e]) = true.
Proof. exact dwc_establishes. Qed.
Print Assumptions C14_established_any_argument.

(* A goroutine whose top-level statements are DoWithContext / pcore.Do / pcore.Try / DoWithParent / TryWithParent calls
   (RDwc, RTry [RDwc]) and observations ends with the entry it started with, whatever the bodies did: nothing a body
   leaves current reaches the code after the call or a later, unrelated scope. *)
Theorem C14_scopes_restore :
  forall (ps : list rop) (st : rst),
    forallb is_scope ps = true -> one (r_tbl st) -> r_tbl (eval_list ps st) = r_tbl st.
Proof. exact scopes_restore. Qed.
Print Assumptions C14_scopes_restore.

(* non-vacuity: in the goroutine of px.Fork (context 0 current), DoWithContext(the current context){ RootContext() }:
   the body sees context 0, then the root context 1; afterwards context 0 is current again; the same when the body
   panics below a recover point, and in a plain goroutine the table made for the call is gone *)
Example C14_nonvacuous_root :
  rrun (Some (Some 0)) [RObs; RDwc ACur [RObs; RRoot; RObs]; RObs; RTry [RDwc ACur [RRoot; RPanic]]; RObs] =
    ([REObs (Some (Some 0)); REObs (Some (Some 0)); REObs (Some (Some 1)); REObs (Some (Some 0));
      REPanic false; REObs (Some (Some 0))], Some (Some 0)) /\
  rrun None [RDwc ANew [RObs; RInit; RObs; RSetNew]; RObs] =
    ([REObs (Some (Some 1)); REObs (Some None); REObs None], None).
Proof. vm_compute. auto. Qed.

(* ---- the implementation registry: a chain of levels with LIVE references (Model/CtxReg.v) ----------------------------- *)
From PcoreV Require Import Model.CtxReg Proofs.CtxRegProofs.

(* "the parent's [definitions] are visible to the child": a definition of a Go-backed type has a loader half and a
   registry half (Go type <-> type); pxContext.Fork wraps both.  For EVERY history of context creations
   (pcore.NewContext, pcore.Do, Context.Fork / px.Fork / px.Go / pcore.DoWithParent(c, ..), pcore.WithParent),
   registrations, loader definitions and observations, and every registry level l that exists after it: a lookup
   through l (ReflectedToType g, TypeToReflected n) is the entry of the first level, from the oldest ancestor of l
   down to l itself, that holds one NOW - whenever that level got it, before or after l was created; never out of fuel. *)
Theorem C14_registry_child_sees_what_ancestors_hold_now :
  forall (os : list hop) (l : raddr),
    let rh := s_rh (hfinal os) in
    l < length rh ->
    exists ls, chain_of rh l = Some ls /\ (forall a, In a ls -> a <= l) /\
               (forall g, r2t rh l g = first_held (own_r2t g) rh ls) /\
               (forall n, t2r rh l n = first_held (own_t2r n) rh ls).
Proof. exact lookup_now. Qed.
Print Assumptions C14_registry_child_sees_what_ancestors_hold_now.

(* ... and the chain of a level is fixed when the level is made: whatever happens later (any history os2), the levels
   consulted through l are the same, in the same order - levels that hold nothing at fork time included *)
Theorem C14_registry_chain_fixed :
  forall (os1 os2 : list hop) (l : raddr),
    l < length (s_rh (hfinal os1)) ->
    chain_of (s_rh (fst (hrun_from (hfinal os1) os2))) l = chain_of (s_rh (hfinal os1)) l.
Proof. exact chain_fixed. Qed.
Print Assumptions C14_registry_chain_fixed.

(* late registrations: after ANY history, a registration of (t, g) through context c that succeeds is found through
   every level whose chain contains the level of c - c itself and its forks of every depth, whatever the levels in
   between hold: the Go type g gives the type object t, the name of t gives g *)
Theorem C14_registry_late_registration_reaches_descendants :
  forall (os : list hop) (c : nat) (x : rctx) (t : ptype) (g : gotype) (l : raddr) (ls : list raddr),
    let st := hfinal os in
    nth_error (s_cx st) c = Some x -> snd (hstep st (HRegister c t g)) = HOk ->
    chain_of (s_rh st) l = Some ls -> In (x_reg x) ls ->
    let st' := fst (hstep st (HRegister c t g)) in
    (exists t', r2t (s_rh st') l g = RFound t' /\ t_id t' = t_id t) /\
    (t_name t <> 0%N -> t2r (s_rh st') l (t_name t) = RFound g).
Proof. exact registration_reaches. Qed.
Print Assumptions C14_registry_late_registration_reaches_descendants.

(* isolation the other way round: a call changes what is found through level l only if it is a registration through a
   context whose level is in the chain of l (l's own context or an ancestor) ... *)
Theorem C14_registry_fork_isolated :
  forall (os : list hop) (o : hop) (l : raddr) (ls : list raddr),
    let st := hfinal os in
    chain_of (s_rh st) l = Some ls ->
    (forall c t g x, o = HRegister c t g -> nth_error (s_cx st) c = Some x -> ~ In (x_reg x) ls) ->
    let st' := fst (hstep st o) in
    (forall g, r2t (s_rh st') l g = r2t (s_rh st) l g) /\ (forall n, t2r (s_rh st') l n = t2r (s_rh st) l n).
Proof. exact step_isolated. Qed.
Print Assumptions C14_registry_fork_isolated.

(* ... and the chain of a level holds older levels only: the level of a fork made later (address = the number of
   levels now) is in the chain of no existing level - parent and siblings never look into it *)
Theorem C14_registry_fork_level_unseen :
  forall (os : list hop) (l : raddr) (ls : list raddr) (a : raddr),
    chain_of (s_rh (hfinal os)) l = Some ls -> In a ls -> a < length (s_rh (hfinal os)).
Proof. exact chain_is_old. Qed.
Print Assumptions C14_registry_fork_level_unseen.

(* not a snapshot: a context d made from context c by Fork (any route) or by WithParent on c's registry finds, after
   ANY later history os2 in which nothing is registered through d itself, for every Go type and every name exactly
   what c finds at that time *)
Theorem C14_registry_fork_tracks_parent :
  forall (os1 : list hop) (o : hop) (c : nat) (os2 : list hop),
    let st := hfinal os1 in
    let d := length (s_cx st) in
    forks_registry o c -> snd (hstep st o) = HOk ->
    forallb (fun o => negb (registers_through d o)) os2 = true ->
    let st2 := fst (hrun_from (fst (hstep st o)) os2) in
    exists xd xc, nth_error (s_cx st2) d = Some xd /\ nth_error (s_cx st2) c = Some xc /\
      (forall g, look (own_r2t g) st2 (x_reg xd) = look (own_r2t g) st2 (x_reg xc)) /\
      (forall n, look (own_t2r n) st2 (x_reg xd) = look (own_t2r n) st2 (x_reg xc)).
Proof. exact fork_tracks_parent. Qed.
Print Assumptions C14_registry_fork_tracks_parent.

(* non-vacuity: pcore.Do; a fork c1 of its context c0; a fork c2 of c1; a sibling c3; THEN c0 registers (type 4 named 3,
   Go type 3) and defines n2: c2, two empty levels below, finds both halves; c2 registers Go type 0 - c0, c1 and c3
   do not find it; another type object for Go type 3 is refused through c2 (ImplAlreadyRegistered) *)
Example C14_nonvacuous_registry :
  snd (hrun [HDo; HFork 0; HFork 1; HFork 0; HObserve 2;
             HRegister 0 {| t_id := 4; t_name := 3 |} 3%N; HDefine 0 2%N 30%Z; HObserve 2;
             HRegister 2 {| t_id := 1; t_name := 1 |} 0%N; HRegister 2 {| t_id := 3; t_name := 1 |} 3%N;
             HObserve 1; HObserve 3; HObserve 2]) =
  [HOk; HOk; HOk; HOk;
   HObs [RMissing; RMissing; RMissing; RMissing] [RMissing; RMissing; RMissing; RMissing] [RMissing; RMissing; RMissing]
        [LMissing; LMissing; LMissing];
   HOk; HOk;
   HObs [RMissing; RMissing; RMissing; RFound 4%N] [RMissing; RMissing; RMissing; RFound 3%N] [RMissing; RMissing; RFound 3%N]
        [LMissing; LMissing; LFound 30%Z];
   HOk; HAlready;
   HObs [RMissing; RMissing; RMissing; RFound 4%N] [RMissing; RMissing; RMissing; RFound 3%N] [RMissing; RMissing; RFound 3%N]
        [LMissing; LMissing; LFound 30%Z];
   HObs [RMissing; RMissing; RMissing; RFound 4%N] [RMissing; RMissing; RMissing; RFound 3%N] [RMissing; RMissing; RFound 3%N]
        [LMissing; LMissing; LFound 30%Z];
   HObs [RFound 1%N; RMissing; RMissing; RFound 4%N] [RFound 1%N; RMissing; RMissing; RFound 3%N] [RFound 0%N; RMissing; RFound 3%N]
        [LMissing; LMissing; LFound 30%Z]].
Proof. vm_compute. reflexivity. Qed.
