(* C01 — Assignability is sound: what is assignable never admits a foreign instance.
   This file holds ONLY the statements of the property theorems, each closed by `exact <lemma>`, with
   `Print Assumptions` beneath.  Model: Model/Lattice.v (`asg rx true` = types.GuardedIsAssignable followed by
   the receiver's IsAssignable, `inst rx true` = IsInstance; the flag `true` = the by-specification rule
   "a Struct accepts a Hash type on key type and size alone" enabled, i.e. the code as it is).
   Hypotheses = what the Go constructors guarantee (wf_ty, wf_val) + exactly the two exclusions the property
   names: no Unit type (no_unit), and the Struct<-Hash rule cannot have contributed (rule_free: the left
   operand contains no Struct or the right operand contains no Hash). `rx` (Go regexp matching) is arbitrary. *)
From Coq Require Import ZArith NArith Bool List.
From PcoreV Require Import Model.Base Model.Ty Model.Lattice Proofs.LatticeBasics Proofs.LatticeRule Proofs.LatticeSound
  Proofs.LatticeTransBasics Proofs.LatticeTransSound.
Import ListNotations.
Open Scope Z_scope.

(* The full statement. *)
Definition C01_statement (vals : value -> bool) : Prop :=
  forall (rx : str -> str -> bool) (a b : ty) (v : value),
    wf_ty a = true -> wf_ty b = true -> no_unit a = true -> no_unit b = true -> rule_free a b = true ->
    vals v = true ->
    asg rx true a b = true -> inst rx true b v = true -> inst rx true a v = true.

(* Proved for all types of the model and all values that contain no type used as a value
   (wf_val: hash keys pairwise different + no VType inside).  `_partial`: values that ARE types
   (instances of Type[T]) need transitivity of assignability, see C03 / Properties/C03.v. *)
Theorem C01_sound_partial : C01_statement wf_val.
Proof. exact C01_sound_first_order. Qed.
Print Assumptions C01_sound_partial.

(* The full theorem: ALL values, types used as values (the instances of Type[T]) included.  The Type[T] case is
   transitivity of assignability (C03_trans, Proofs/LatticeTrans.v): `inst (TType t) (VType u) = asg t u`.
   Hypotheses beyond those of the partial theorem:
     wf_valt v          hash keys pairwise different; every type that occurs in v as a value is well-formed and
                        Unit-free (no condition on sizes: C03 finding trans-negative-collection-size is fixed);
     rule_free_val t v  the by-specification Struct<-Hash rule cannot fire when an instance of Type[T] is tested
                        against t: t contains no Struct or no type inside v contains a Hash (the exclusion the
                        property names, one level down; C01_rule_excluded_for_type_values shows it is needed). *)
Definition C01_statement_all_values : Prop :=
  forall (rx : str -> str -> bool) (a b : ty) (v : value),
    wf_ty a = true -> wf_ty b = true -> no_unit a = true -> no_unit b = true ->
    rule_free a b = true -> rule_free_val a v = true -> rule_free_val b v = true -> wf_valt v = true ->
    asg rx true a b = true -> inst rx true b v = true -> inst rx true a v = true.

Theorem C01_sound : C01_statement_all_values.
Proof. exact C01_sound_all_values. Qed.
Print Assumptions C01_sound.

(* the same for the relation and the instance test without the by-specification rule: no exclusion at all *)
Theorem C01_sound_rule_free_relation :
  forall (rx : str -> str -> bool) (a b : ty) (v : value),
    wf_ty a = true -> wf_ty b = true -> no_unit a = true -> no_unit b = true -> wf_valt v = true ->
    asg rx false a b = true -> inst rx false b v = true -> inst rx false a v = true.
Proof. exact C01_sound_rule_free_model. Qed.
Print Assumptions C01_sound_rule_free_relation.

(* Non-vacuity of the full theorem: a value that holds types, flowing through Type[...] inside a Struct and a Tuple *)
Example C01_all_values_nonvacuous :
  let rx := fun _ _ => false in
  let a := TStruct [([97%N], (TStringVal [97%N], TTuple [TType (TVariant [TScalar; TArray TAny 0 9]); TOptional (TType TAny)] false 2 2))] in
  let b := TStruct [([97%N], (TStringVal [97%N], TTuple [TType (TArray TNumeric 0 5); TType (TInteger 0 9)] false 2 2))] in
  let v := VHash [(VStr [97%N], VArr [VType (TTuple [TInteger 1 2; TFloat 0 1] false 2 2); VType (TInteger 3 4)])] in
  wf_ty a = true /\ wf_ty b = true /\ no_unit a = true /\ no_unit b = true /\ rule_free a b = true /\
  rule_free_val a v = true /\ rule_free_val b v = true /\ wf_valt v = true /\ wf_val v = false /\
  asg rx true a b = true /\ inst rx true b v = true /\ inst rx true a v = true /\ asg rx true b a = false.
Proof. vm_compute. repeat split; reflexivity. Qed.

(* the exclusion of the rule is needed one level down as well: Type[Hash[Enum['a'],Integer]] accepts
   Type[Struct[{a=>Integer}]] (no Struct on the left: rule_free holds), the type Hash[String,Integer,1,1] is an instance
   of the latter through the rule, and not of the former *)
Example C01_rule_excluded_for_type_values :
  let rx := fun _ _ => false in
  let i := TInteger (-9223372036854775808) 9223372036854775807 in
  let a := TType (THash (TEnum false [[97%N]]) i 0 9223372036854775807) in
  let b := TType (TStruct [([97%N], (TStringVal [97%N], i))]) in
  let v := VType (THash TString i 1 1) in
  rule_free a b = true /\ wf_valt v = true /\ asg rx true a b = true /\ inst rx true b v = true /\ inst rx true a v = false /\
  rule_free_val b v = false.
Proof. vm_compute. repeat split; reflexivity. Qed.

(* Non-vacuity: a nested pair that IS accepted, and an instance that flows through. *)
Example C01_nonvacuous :
  let rx := fun _ _ => false in
  let a := TStruct [([97%N], (TStringVal [97%N], TTuple [TVariant [TInteger 0 10; TString]; TOptional (TInteger 0 5)] false 2 2))] in
  let b := TStruct [([97%N], (TStringVal [97%N], TTuple [TInteger 1 5; TInteger 2 3] false 2 2))] in
  let v := VHash [(VStr [97%N], VArr [VInt 3; VInt 2])] in
  wf_ty a = true /\ wf_ty b = true /\ no_unit a = true /\ no_unit b = true /\ rule_free a b = true /\ wf_val v = true /\
  asg rx true a b = true /\ inst rx true b v = true /\ inst rx true a v = true /\
  asg rx true b a = false.
Proof. vm_compute. repeat split; reflexivity. Qed.

(* The exclusions are needed: with Unit, or through the Struct<-Hash rule, soundness fails in the model as
   in the code (Integer accepts Unit, whose instances are all values; Struct[{a=>Integer}] accepts
   Hash[String,Integer,1,1] whose instance {b=>1} it does not contain). *)
Example C01_unit_excluded :
  asg (fun _ _ => false) true (TInteger 0 0) TUnit = true /\ inst (fun _ _ => false) true TUnit (VStr []) = true /\
  inst (fun _ _ => false) true (TInteger 0 0) (VStr []) = false.
Proof. vm_compute. repeat split; reflexivity. Qed.
Example C01_rule_excluded :
  let a := TStruct [([97%N], (TStringVal [97%N], TInteger 0 9))] in
  let b := THash TString (TInteger 0 9) 1 1 in
  let v := VHash [(VStr [98%N], VInt 1)] in
  asg (fun _ _ => false) true a b = true /\ inst (fun _ _ => false) true b v = true /\
  inst (fun _ _ => false) true a v = false /\ rule_free a b = false.
Proof. vm_compute. repeat split; reflexivity. Qed.
