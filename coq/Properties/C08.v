(* C08 — Values are immutable: no operation disturbs a value obtained earlier.
   ONLY statements; each closed by `exact <lemma>` with `Print Assumptions` beneath.

   The model (Model/Heap.v, Model/CollHeap.v): a store of backing arrays with fixed capacity, Go slices
   (address, offset, length, capacity), Go `append` (in place when the capacity allows, otherwise a fresh
   array whose capacity is chosen by the growth policy `g` — a parameter of every theorem), and every
   List / OrderedMap operation the way the current code performs it on slices.  A history applies operations
   to a pool of values; every step may use any earlier value or result as receiver or argument.
   `observe fuel h v` is the deep snapshot of a value (elements, entries, keys, order) to depth `fuel`. *)
From Coq Require Import ZArith NArith Bool List.
From PcoreV Require Import Model.Base Model.Heap Model.Coll Model.CollHeap
     Proofs.HeapProofs Proofs.CollHeapProofs Proofs.CollHeapDecide Proofs.CollHeapFrame
     Model.CollHeapX Proofs.CollHeapXProofs Model.CollHeapA Proofs.CollHeapAProofs
     Model.Ty Model.InferHeap Proofs.InferHeapProofs.
Import ListNotations.

(* No operation writes to a cell that existed before the operation: the store after a step is the store before
   the step followed by the backing arrays the step allocated (published cells AND spare capacity are untouched). *)
Theorem C08_step_extends :
  forall (g : nat -> nat -> nat) (st : hstate) (o : op),
    exists ext, st_heap (fst (hstep g st o)) = st_heap st ++ ext.
Proof. exact hstep_prefix. Qed.
Print Assumptions C08_step_extends.

(* Well-formedness (every slice inside a pool value or inside a cell of the store points into the store) holds of
   the empty state and is kept by every history, so the hypothesis of the frame theorem is met at every point of
   every history. *)
Theorem C08_wf_invariant :
  forall g ops, state_wf (fst (hrun g empty_state ops)).
Proof. intros g ops. apply hrun_wf, empty_wf. Qed.
Print Assumptions C08_wf_invariant.

Theorem C08_wf_preserved :
  forall g ops st, state_wf st -> state_wf (fst (hrun g st ops)).
Proof. exact hrun_wf. Qed.
Print Assumptions C08_wf_preserved.

(* THE FRAME THEOREM.  For every growth policy, every well-formed state and EVERY sequence of operations: the deep
   observation, to any depth, of every value of the pool (receivers, arguments, results of earlier operations) is
   the same after the sequence as before. *)
Theorem C08_frame :
  forall (g : nat -> nat -> nat) (ops : list op) (st : hstate), state_wf st ->
  forall (fuel : nat) (x : hval), In x (st_pool st) ->
    observe fuel (st_heap (fst (hrun g st ops))) x = observe fuel (st_heap st) x.
Proof. exact frame. Qed.
Print Assumptions C08_frame.

(* The same in the terms of the harness: the snapshots of the values of a history, taken after ANY continuation of
   the history, are the snapshots taken at the end of the history itself ... *)
Theorem C08_final_obs_stable :
  forall g ops1 ops2,
    firstn (length ops1) (final_obs (fst (hrun g empty_state (ops1 ++ ops2)))) =
    final_obs (fst (hrun g empty_state ops1)).
Proof. exact final_obs_stable. Qed.
Print Assumptions C08_final_obs_stable.

(* ... and the result of every step, as snapshot when the step returned, is the snapshot of that result at the end
   of the history (a failed step leaves undef in the pool). *)
Theorem C08_results_stable :
  forall g ops,
    Forall2 out_matches (snd (hrun g empty_state ops)) (final_obs (fst (hrun g empty_state ops))).
Proof. intros g ops. exact (results_stable g ops empty_state empty_wf). Qed.
Print Assumptions C08_results_stable.

(* Non-vacuity: a history with sharing — a slice of a built array, two additions to the same receiver, an addition
   to the slice, a deletion from a hash followed by lookups in the original — computed by the model. *)
Example C08_nonvacuous :
  let ops := [OBuild 4 (PArr [PInt 1; PInt 2; PInt 3]); OLit (PInt 7); OLit (PInt 8);
              OSlice 0 0 1; OAdd 0 1; OAdd 0 2; OAdd 3 1;
              OLit (PHash [(PStr [97%N], PInt 1); (PStr [98%N], PInt 2); (PStr [99%N], PInt 3)]);
              OLit (PStr [97%N]); ODelete 7 8; OGet 7 8; OGet 9 8] in
  final_obs (fst (hrun grow_double empty_state ops)) =
  [PArr [PInt 1; PInt 2; PInt 3]; PInt 7; PInt 8; PArr [PInt 1]; PArr [PInt 1; PInt 2; PInt 3; PInt 7];
   PArr [PInt 1; PInt 2; PInt 3; PInt 8]; PArr [PInt 1; PInt 7];
   PHash [(PStr [97%N], PInt 1); (PStr [98%N], PInt 2); (PStr [99%N], PInt 3)]; PStr [97%N];
   PHash [(PStr [98%N], PInt 2); (PStr [99%N], PInt 3)]; PInt 1; PUndef]%Z.
Proof. vm_compute. reflexivity. Qed.

(* Sensitivity: the model can express the defect.  With the pre-fix Array.Add (`append(av.elements, ov)`, fixed by
   e2d0883) two additions to a receiver with spare capacity share a cell and the second overwrites the result of
   the first: a := [1] (cap 4); b := a.Add(2); a.Add(3) turns b into [1,3]. *)
Example C08_uncapped_append_breaks_frame :
  let st0 := fst (hrun grow_exact empty_state [OBuild 4 (PArr [PInt 1%Z]); OLit (PInt 2%Z); OLit (PInt 3%Z)]) in
  let st1 := buggy_add grow_exact st0 0 1 in
  let st2 := buggy_add grow_exact st1 0 2 in
  observe obs_fuel (st_heap st1) (P (st_pool st1) 3) = PArr [PInt 1%Z; PInt 2%Z] /\
  observe obs_fuel (st_heap st2) (P (st_pool st2) 3) = PArr [PInt 1%Z; PInt 3%Z].
Proof. exact uncapped_append_breaks_frame. Qed.

(* ----------------------------------------------------------------------------------------------------------------
   Construction routes that SHARE ENTRY OBJECTS (Model/CollHeapX.v): histories in which, besides every operation above,
   a step may be Hash.new(tree, 'tree' | 'hash_tree') - a root element [[], h] hands the entry objects of h to the
   result, path elements descend through the hashes the call has made itself (after fix 4f15f12: never into a hash that
   arrives as a value), values are put as they are - or MapEntries (a many-to-one mapper: the result holds an equal
   key several times; or the identity: the result holds the receiver's entry objects).  The same theorems hold. *)
Theorem C08_x_step_extends :
  forall (g : nat -> nat -> nat) (st : hstate) (o : xop), state_wf st ->
    exists ext, st_heap (fst (xstep g st o)) = st_heap st ++ ext.
Proof. exact xstep_prefix. Qed.
Print Assumptions C08_x_step_extends.

Theorem C08_x_wf_invariant :
  forall g ops, state_wf (fst (xrun g empty_state ops)).
Proof. intros g ops. apply xrun_wf, empty_wf. Qed.
Print Assumptions C08_x_wf_invariant.

Theorem C08_x_frame :
  forall (g : nat -> nat -> nat) (ops : list xop) (st : hstate), state_wf st ->
  forall (fuel : nat) (x : hval), In x (st_pool st) ->
    observe fuel (st_heap (fst (xrun g st ops))) x = observe fuel (st_heap st) x.
Proof. exact xframe. Qed.
Print Assumptions C08_x_frame.

Theorem C08_x_final_obs_stable :
  forall g ops1 ops2,
    firstn (length ops1) (final_obs (fst (xrun g empty_state (ops1 ++ ops2)))) =
    final_obs (fst (xrun g empty_state ops1)).
Proof. exact xfinal_obs_stable. Qed.
Print Assumptions C08_x_final_obs_stable.

Theorem C08_x_results_stable :
  forall g ops,
    Forall2 out_matches (snd (xrun g empty_state ops)) (final_obs (fst (xrun g empty_state ops))).
Proof. intros g ops. exact (xresults_stable g ops empty_state empty_wf). Qed.
Print Assumptions C08_x_results_stable.

(* the histories of the first part are the extended histories that do not use the two routes *)
Theorem C08_x_extends_base :
  forall g ops st, xrun g st (map XBase ops) = hrun g st ops.
Proof. exact xrun_base. Qed.
Print Assumptions C08_x_extends_base.

(* Non-vacuity and sensitivity: Hash.new([[[], h], [['a'], 99]], 'tree') with h = {a=>1, b=>2}: the result is
   {a=>99, b=>2} (it shares the entry object of b with h) and h is what it was; with a Put that assigns the value field
   of the entry object it finds (the defect class of the seeded change C08-m6) h itself becomes {a=>99, b=>2}. *)
Example C08_put_in_place_breaks_frame :
  let a := PStr [97%N] in let b := PStr [98%N] in
  let ops := [XBase (OLit (PHash [(a, PInt 1); (b, PInt 2)]));
              XBase (OLit (PArr [PArr []])); XBase (OAdd 1 0);
              XBase (OLit (PArr [PArr [PArr [a]; PInt 99]]));
              XBase (OLit (PArr [])); XBase (OAdd 4 2); XBase (OAddAll 5 3);
              XHashNew 6 false] in
  let st := fst (xrun grow_exact empty_state ops) in
  observe obs_fuel (st_heap st) (P (st_pool st) 7) = PHash [(a, PInt 99); (b, PInt 2)]%Z /\
  observe obs_fuel (st_heap st) (P (st_pool st) 0) = PHash [(a, PInt 1); (b, PInt 2)]%Z /\
  match P (st_pool st) 0 with
  | HHash s => observe obs_fuel (put_in_place (st_heap st) s 0 (HInt 99)) (P (st_pool st) 0)
  | _ => PNil
  end = PHash [(a, PInt 99); (b, PInt 2)]%Z.
Proof. exact put_in_place_breaks_frame. Qed.

(* ----------------------------------------------------------------------------------------------------------------
   READ ACCESSORS THAT HAND OUT GO SLICES, and the writes of the caller into what came back (Model/CollHeapA.v):
   histories in which, besides every step above, a step may be
     dst := make([]T, dl, dc) (nil, empty, empty with room, holding something); res := v.AppendTo(dst) (Array: one
     append(dst, elements...); Hash: one append per entry; HashEntry: append(dst, key, value)) or
     res := h.AppendEntriesTo(dst); then the CALLER assigns pool values to any cells of res[:cap(res)] - elements and
     spare capacity -; the pool gets the slice wrapped as an Array / Hash (no copy).
   This is what the creators of Enum, Tuple and Callable do with their first list argument (AppendTo(make(0, n+k)),
   append the k arguments that follow, assign the last cell, WrapValues).  `append` is the Go append of Model/Heap.v:
   nothing in the model says that the result is disjoint from the receiver. *)

(* The accessor returns fresh storage: for every receiver (a whole array, a view, an array with spare capacity, a
   hash, an entry), every destination and every growth policy the slice that is handed out lies in a backing array
   that did not exist before the call. *)
Theorem C08_a_accessor_fresh :
  forall (g : nat -> nat -> nat) (st : hstate) (entries : bool) (r dl dc dx : nat) (ws : list (nat * nat)),
    state_wf st ->
    match snd (astep g st (AAccess entries r dl dc dx ws)) with
    | RVal _ => exists res, st_pool (fst (astep g st (AAccess entries r dl dc dx ws))) =
                            (st_pool st ++ [if entries then HHash res else HArr res])%list /\
                            (length (st_heap st) <= s_addr res)%nat
    | RErr _ => True
    end.
Proof. exact access_fresh. Qed.
Print Assumptions C08_a_accessor_fresh.

(* Hence a step - the call and EVERY write of the caller into the result, within its whole capacity - leaves every
   cell that existed before the step alone. *)
Theorem C08_a_step_extends :
  forall (g : nat -> nat -> nat) (st : hstate) (o : aop), state_wf st ->
    exists ext, st_heap (fst (astep g st o)) = (st_heap st ++ ext)%list.
Proof. exact astep_prefix. Qed.
Print Assumptions C08_a_step_extends.

Theorem C08_a_wf_invariant :
  forall g ops, state_wf (fst (arun g empty_state ops)).
Proof. intros g ops. apply arun_wf, empty_wf. Qed.
Print Assumptions C08_a_wf_invariant.

Theorem C08_a_frame :
  forall (g : nat -> nat -> nat) (ops : list aop) (st : hstate), state_wf st ->
  forall (fuel : nat) (x : hval), In x (st_pool st) ->
    observe fuel (st_heap (fst (arun g st ops))) x = observe fuel (st_heap st) x.
Proof. exact aframe. Qed.
Print Assumptions C08_a_frame.

Theorem C08_a_final_obs_stable :
  forall g ops1 ops2,
    firstn (length ops1) (final_obs (fst (arun g empty_state (ops1 ++ ops2)))) =
    final_obs (fst (arun g empty_state ops1)).
Proof. exact afinal_obs_stable. Qed.
Print Assumptions C08_a_final_obs_stable.

Theorem C08_a_results_stable :
  forall g ops,
    Forall2 out_matches (snd (arun g empty_state ops)) (final_obs (fst (arun g empty_state ops))).
Proof. intros g ops. exact (aresults_stable g ops empty_state empty_wf). Qed.
Print Assumptions C08_a_results_stable.

(* the extended histories of the part above are these histories without accessor steps *)
Theorem C08_a_extends_x :
  forall g ops st, arun g st (map ABase ops) = xrun g st ops.
Proof. exact arun_base. Qed.
Print Assumptions C08_a_extends_x.

(* Non-vacuity and sensitivity: x = ['a','b','c','d'], s = x.Slice(0, 2), res := s.AppendTo(nil), res[:cap(res)][2] =
   true.  With the accessor as it is x is unchanged and the result is ['a','b'] (the write went to a cell nobody sees,
   or nowhere); with an accessor that hands out the receiver's own slice when the destination is empty (the defect
   class of the seeded change C08-m8) x has become ['a','b',true,'d']. *)
Example C08_aliasing_accessor_breaks_frame :
  let a := PStr [97%N] in let b := PStr [98%N] in let c := PStr [99%N] in let d := PStr [100%N] in
  let ops := [ABase (XBase (OLit (PArr [a; b; c; d]))); ABase (XBase (OSlice 0 0%Z 2%Z)); ABase (XBase (OLit (PBool true)))] in
  let st := fst (arun grow_exact empty_state ops) in
  let st1 := fst (astep grow_exact st (AAccess false 1 0 0 2 [(2, 2)]%nat)) in
  let st2 := aliasing_access st 1 [(2, 2)]%nat in
  observe obs_fuel (st_heap st1) (P (st_pool st1) 0) = PArr [a; b; c; d] /\
  observe obs_fuel (st_heap st1) (P (st_pool st1) 3) = PArr [a; b] /\
  observe obs_fuel (st_heap st2) (P (st_pool st2) 0) = PArr [a; b; PBool true; d].
Proof. exact aliasing_accessor_breaks_frame. Qed.

(* ================================================================================================================
   Results that are TYPES.  "Inferring its type" is one of the operations of the property, and the type object it
   returns is a result obtained earlier (it is also what the value reports from then on: Array and Hash cache it).
   The model (Model/InferHeap.v): the members of an Enum are a Go slice over a store of string arrays; commonType
   evaluates append(ea.values, ...) on the members of its first operand - IN PLACE when they have spare capacity -,
   utils.Unique copies, NewEnumType keeps the slice it is given; commonType returns an operand itself when it accepts
   the other; Array / Hash values cache the inferred type per object.  A type history applies value constructions
   (literals, wrapping of pool values - the same objects -, Add, At), inferences (PType), common types, parsed
   Enums (with and without spare capacity) and type components to a pool of values and types.
   `eobs h e` is the deep observation of a pool entry: the value tree, or the type with the members of every Enum
   read through the store.  `ist_wf`: the slices of all pool types and cached types point into the store, and two of
   them over the same backing array are the same slice. *)

(* The invariant holds of the empty state and is kept by every history. *)
Theorem C08_infer_wf_invariant :
  forall g ops, ist_wf (fst (irun g iempty ops)).
Proof. intros g ops. apply irun_wf, iempty_wf. Qed.
Print Assumptions C08_infer_wf_invariant.

Theorem C08_infer_wf_preserved :
  forall g ops st, ist_wf st -> ist_wf (fst (irun g st ops)).
Proof. intros g ops st. apply irun_wf. Qed.
Print Assumptions C08_infer_wf_preserved.

(* THE FRAME THEOREM FOR TYPES.  For every growth policy, every well-formed state and EVERY sequence of operations:
   the deep observation of every entry of the pool - every value, and every type returned by an earlier inference,
   common type or parse - is the same after the sequence as before (although the sequence may write into the
   backing arrays of those types). *)
Theorem C08_infer_frame :
  forall (g : nat -> nat -> nat) (ops : list iop) (st : ist), ist_wf st ->
  forall e : ient, In e (i_pool st) ->
    eobs (i_heap (fst (irun g st ops))) e = eobs (i_heap st) e.
Proof. exact infer_frame. Qed.
Print Assumptions C08_infer_frame.

(* The type a value reports: once an Array / Hash object has cached its inferred type it reports the same type
   object after every further sequence of operations, and the contents of that type are unchanged. *)
Theorem C08_cached_type_stable :
  forall (g : nat -> nat -> nat) (ops : list iop) (st : ist), ist_wf st ->
  forall (id : nat) (t : yty), clookup id (i_cache st) = Some t ->
    clookup id (i_cache (fst (irun g st ops))) = Some t /\
    tobs (i_heap (fst (irun g st ops))) t = tobs (i_heap st) t.
Proof. exact cached_type_stable. Qed.
Print Assumptions C08_cached_type_stable.

(* In the terms of the harness: the observations of the entries of a history after ANY continuation are the
   observations at the end of the history itself ... *)
Theorem C08_infer_final_obs_stable :
  forall g ops1 ops2,
    firstn (length ops1) (ifinal (fst (irun g iempty (ops1 ++ ops2)))) = ifinal (fst (irun g iempty ops1)).
Proof. exact ifinal_stable. Qed.
Print Assumptions C08_infer_final_obs_stable.

(* ... and the result of every step, as observed when the step returned, is its observation at the end. *)
Theorem C08_infer_results_stable :
  forall g ops,
    Forall2 iout_matches (snd (irun g iempty ops)) (ifinal (fst (irun g iempty ops))).
Proof. intros g ops. exact (iresults_stable g ops iempty iempty_wf). Qed.
Print Assumptions C08_infer_results_stable.

(* Non-vacuity: x = ['a','b','c'] nested in [x, ['y']] (built with Add) and in {f => x, s => ['z']}; the type of the
   first container still has the member 'y' after the second inference; then a parsed Enum with one spare cell is
   merged twice: the second merge overwrites the spare cell ('z' where 'y' was written) and no type sees it. *)
Example C08_infer_nonvacuous :
  let a := [97%N] in let b := [98%N] in let c := [99%N] in let y := [121%N] in let z := [122%N] in
  let ops := [ILit (PArr [PStr a; PStr b; PStr c]); IWrapArr [0%nat]; ILit (PArr [PStr y]); IAdd 1 2; IPType 3;
              ILit (PArr [PStr z]); IWrapHash [([102%N], 0%nat); ([115%N], 5%nat)]; IPType 6; IPType 3;
              IEnumLit false [a; b] 1; ILit (PStr y); IPType 10; ILit (PStr z); IPType 12; ICommon 9 11; ICommon 9 13] in
  let st := fst (irun grow_double iempty ops) in
  nth 4%nat (ifinal st) (OV PNil) = OT (TArray (TArray (TEnum false [a; b; c; y]) 1 3) 2 2) /\
  nth 7%nat (ifinal st) (OV PNil) = OT (THash (TEnum false [[102%N]; [115%N]]) (TArray (TEnum false [a; b; c; z]) 1 3) 2 2) /\
  nth 8%nat (ifinal st) (OV PNil) = nth 4%nat (ifinal st) (OV PNil) /\
  nth 9%nat (ifinal st) (OV PNil) = OT (TEnum false [a; b]) /\
  nth 14%nat (ifinal st) (OV PNil) = OT (TEnum false [a; b; y]) /\
  nth 15%nat (ifinal st) (OV PNil) = OT (TEnum false [a; b; z]) /\
  (* the backing array of the parsed Enum: its spare cell was written twice *)
  nth 8%nat (i_heap st) [] = [Some a; Some b; Some z].
Proof. vm_compute. repeat split; reflexivity. Qed.

(* Sensitivity: the model expresses the defect class.  With a utils.Unique that hands back its argument when nothing
   was removed, the members of the merged Enum live in the spare capacity of the first operand and the next merge on
   the same operand overwrites them: the frame does NOT hold (first two equations); with the code as it is, it does. *)
Example C08_unique_shortcut_breaks_frame :
  let a := [97%N] in let b := [98%N] in let y := [121%N] in let z := [122%N] in
  let '(h0, s) := halloc ([] : sstore) [a; b] 3 in
  let '(h1, c1) := enum_merge_shortcut (fun _ n => n) h0 s [y] false in
  let '(h2, c2) := enum_merge_shortcut (fun _ n => n) h1 s [z] false in
  tobs h1 c1 = TEnum false [a; b; y] /\ tobs h2 c1 = TEnum false [a; b; z] /\
  let '(k1, d1) := enum_merge (fun _ n => n) h0 s [y] false in
  let '(k2, d2) := enum_merge (fun _ n => n) k1 s [z] false in
  tobs k1 d1 = TEnum false [a; b; y] /\ tobs k2 d1 = TEnum false [a; b; y] /\ tobs k2 d2 = TEnum false [a; b; z].
Proof. exact unique_shortcut_breaks_frame. Qed.
