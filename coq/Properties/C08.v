(* C08 — Values are immutable: no operation disturbs a value obtained earlier.
   ONLY statements; each closed by `exact <lemma>` with `Print Assumptions` beneath.

   The model (Model/Heap.v, Model/CollHeap.v): a store of backing arrays with fixed capacity, Go slices
   (address, offset, length, capacity), Go `append` (in place when the capacity allows, otherwise a fresh
   array whose capacity is chosen by the growth policy `g` — a parameter of every theorem), and every
   List / OrderedMap operation the way the current code performs it on slices.  A history applies operations
   to a pool of values; every step may use any earlier value or result as receiver or argument.
   `observe fuel h v` is the deep snapshot of a value (elements, entries, keys, order) to depth `fuel`. *)
From Coq Require Import ZArith NArith Bool List.
From PcoreV Require Import Model.Base Model.Heap Model.Coll Model.CollHeap
     Proofs.HeapProofs Proofs.CollHeapProofs Proofs.CollHeapDecide Proofs.CollHeapFrame.
Import ListNotations.

(* No operation writes to a cell that existed before the operation: the store after a step is the store before
   the step followed by the backing arrays the step allocated (published cells AND spare capacity are untouched). *)
Theorem C08_step_extends :
  forall (g : nat -> nat -> nat) (st : hstate) (o : op),
    exists ext, st_heap (fst (hstep g st o)) = st_heap st ++ ext.
Proof. exact hstep_prefix. Qed.
Print Assumptions C08_step_extends.

(* Well-formedness (every slice inside a pool value or inside a cell of the store points into the store) holds of
   the empty state and is kept by every history, so the hypothesis of the frame theorem is met at every point of
   every history. *)
Theorem C08_wf_invariant :
  forall g ops, state_wf (fst (hrun g empty_state ops)).
Proof. intros g ops. apply hrun_wf, empty_wf. Qed.
Print Assumptions C08_wf_invariant.

Theorem C08_wf_preserved :
  forall g ops st, state_wf st -> state_wf (fst (hrun g st ops)).
Proof. exact hrun_wf. Qed.
Print Assumptions C08_wf_preserved.

(* THE FRAME THEOREM.  For every growth policy, every well-formed state and EVERY sequence of operations: the deep
   observation, to any depth, of every value of the pool (receivers, arguments, results of earlier operations) is
   the same after the sequence as before. *)
Theorem C08_frame :
  forall (g : nat -> nat -> nat) (ops : list op) (st : hstate), state_wf st ->
  forall (fuel : nat) (x : hval), In x (st_pool st) ->
    observe fuel (st_heap (fst (hrun g st ops))) x = observe fuel (st_heap st) x.
Proof. exact frame. Qed.
Print Assumptions C08_frame.

(* The same in the terms of the harness: the snapshots of the values of a history, taken after ANY continuation of
   the history, are the snapshots taken at the end of the history itself ... *)
Theorem C08_final_obs_stable :
  forall g ops1 ops2,
    firstn (length ops1) (final_obs (fst (hrun g empty_state (ops1 ++ ops2)))) =
    final_obs (fst (hrun g empty_state ops1)).
Proof. exact final_obs_stable. Qed.
Print Assumptions C08_final_obs_stable.

(* ... and the result of every step, as snapshot when the step returned, is the snapshot of that result at the end
   of the history (a failed step leaves undef in the pool). *)
Theorem C08_results_stable :
  forall g ops,
    Forall2 out_matches (snd (hrun g empty_state ops)) (final_obs (fst (hrun g empty_state ops))).
Proof. intros g ops. exact (results_stable g ops empty_state empty_wf). Qed.
Print Assumptions C08_results_stable.

(* Non-vacuity: a history with sharing — a slice of a built array, two additions to the same receiver, an addition
   to the slice, a deletion from a hash followed by lookups in the original — computed by the model. *)
Example C08_nonvacuous :
  let ops := [OBuild 4 (PArr [PInt 1; PInt 2; PInt 3]); OLit (PInt 7); OLit (PInt 8);
              OSlice 0 0 1; OAdd 0 1; OAdd 0 2; OAdd 3 1;
              OLit (PHash [(PStr [97%N], PInt 1); (PStr [98%N], PInt 2); (PStr [99%N], PInt 3)]);
              OLit (PStr [97%N]); ODelete 7 8; OGet 7 8; OGet 9 8] in
  final_obs (fst (hrun grow_double empty_state ops)) =
  [PArr [PInt 1; PInt 2; PInt 3]; PInt 7; PInt 8; PArr [PInt 1]; PArr [PInt 1; PInt 2; PInt 3; PInt 7];
   PArr [PInt 1; PInt 2; PInt 3; PInt 8]; PArr [PInt 1; PInt 7];
   PHash [(PStr [97%N], PInt 1); (PStr [98%N], PInt 2); (PStr [99%N], PInt 3)]; PStr [97%N];
   PHash [(PStr [98%N], PInt 2); (PStr [99%N], PInt 3)]; PInt 1; PUndef]%Z.
Proof. vm_compute. reflexivity. Qed.

(* Sensitivity: the model can express the defect.  With the pre-fix Array.Add (`append(av.elements, ov)`, fixed by
   e2d0883) two additions to a receiver with spare capacity share a cell and the second overwrites the result of
   the first: a := [1] (cap 4); b := a.Add(2); a.Add(3) turns b into [1,3]. *)
Example C08_uncapped_append_breaks_frame :
  let st0 := fst (hrun grow_exact empty_state [OBuild 4 (PArr [PInt 1%Z]); OLit (PInt 2%Z); OLit (PInt 3%Z)]) in
  let st1 := buggy_add grow_exact st0 0 1 in
  let st2 := buggy_add grow_exact st1 0 2 in
  observe obs_fuel (st_heap st1) (P (st_pool st1) 3) = PArr [PInt 1%Z; PInt 2%Z] /\
  observe obs_fuel (st_heap st2) (P (st_pool st2) 3) = PArr [PInt 1%Z; PInt 3%Z].
Proof. exact uncapped_append_breaks_frame. Qed.
