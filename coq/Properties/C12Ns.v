(* C12, the NAMESPACE clause: typed names of different namespaces (type / function / constructor / allocator / ...)
   never collide, and a lookup in one namespace never sees a binding of another.
   ONLY statements; proofs in Proofs/LoaderNamespace.v (on top of Proofs/LoaderNames.v map_key_same_lower and the
   refinement theorems of Proofs/LoaderProofs.v / LoaderAddProofs.v); notions in Model/LoaderSpecNs.v:
     ns_of n            the namespace n is filed under = the lower-cased namespace (TypedName.MapKey lower-cases the
                        whole key; every px.Namespace constant of the library is lower case - C12_namespace_case_folded
                        shows what the folding means for namespaces that differ in letter case only);
     ns_restrict ns a   the specification state a with the bindings of every other namespace forgotten;
     foreign ns o       o is a definition or a lookup (Load, LoadEntry, GetEntry, HasEntry) of a name of another namespace;
     erase_foreign      the history without those (the constructions stay: loaders keep their numbers);
     ns_query ns q      q is a definition or a lookup of a name of the namespace ns. *)
From Coq Require Import NArith Bool List.
From PcoreV Require Import Model.Base Model.Loader Model.LoaderSpec Model.LoaderSpecNs Model.LoaderAdd
  Proofs.LoaderNames Proofs.LoaderProofs Proofs.LoaderAddProofs Proofs.LoaderNamespace.
Import ListNotations.

(* Keys.  Well-formed names of different namespaces never have the same map key ... *)
Theorem C12_namespace_keys_disjoint :
  forall n n', tn_wf n = true -> tn_wf n' = true -> ns_of n <> ns_of n' -> map_key n <> map_key n'.
Proof. exact keys_disjoint. Qed.
Print Assumptions C12_namespace_keys_disjoint.

(* ... the key of a name decodes (typedNameFromMapKey) to a name of the same namespace with the same key ... *)
Theorem C12_namespace_key_decodes :
  forall n, tn_wf n = true ->
    exists tn, tn_of_key (map_key n) = Some tn /\ tn_ns tn = ns_of n /\ map_key tn = map_key n.
Proof. exact key_namespace. Qed.
Print Assumptions C12_namespace_key_decodes.

(* ... so binding a name of another namespace in a map changes no lookup of n in that map. *)
Theorem C12_namespace_own_lookup :
  forall (bs : list (str * val)) n n', tn_wf n = true -> tn_wf n' = true -> ns_of n <> ns_of n' ->
    forall v, assoc (map_key n) (bs ++ [(map_key n', v)]) = assoc (map_key n) bs.
Proof. exact own_lookup_namespace. Qed.
Print Assumptions C12_namespace_own_lookup.

(* States.  In EVERY state, through every loader (parented, forked, type-set loaders with relative names, any depth):
   the resolution of a name is its resolution in the state that has the bindings of the name's namespace only. *)
Theorem C12_namespace_resolve_local :
  forall ns f a l n, tn_wf n = true -> ns_of n = ns ->
    spec_resolve f (ns_restrict ns a) l n = spec_resolve f a l n.
Proof. exact resolve_restrict. Qed.
Print Assumptions C12_namespace_resolve_local.

(* Histories.  The bindings of a namespace after a history are those after the history from which every definition
   and lookup of names of other namespaces is erased ... *)
Theorem C12_namespace_same_bindings :
  forall cfg ns ops, cfg_wf cfg = true -> forallb op_wf ops = true ->
    ns_restrict ns (abs (fst (run cfg ops))) = ns_restrict ns (abs (fst (run cfg (erase_foreign ns ops)))).
Proof. exact erase_same_bindings_model. Qed.
Print Assumptions C12_namespace_same_bindings.

(* ... and every definition or lookup of a name of the namespace has the same result after both histories: nothing done
   under another namespace - no definition, no cached miss - is ever visible (`project`: LoadEntry / GetEntry do not tell a
   cached miss from an absent entry) ... *)
Theorem C12_namespace_noninterference :
  forall cfg ns ops q,
    cfg_wf cfg = true -> forallb op_wf ops = true -> op_wf q = true -> ns_query ns q = true ->
    project (result_after cfg (erase_foreign ns ops) q) = project (result_after cfg ops q).
Proof. exact namespace_noninterference. Qed.
Print Assumptions C12_namespace_noninterference.

(* ... for px.Load, HasEntry and SetEntry the result as it is. *)
Theorem C12_namespace_noninterference_load :
  forall cfg ns ops q,
    cfg_wf cfg = true -> forallb op_wf ops = true -> op_wf q = true -> ns_query ns q = true ->
    not_entry_op q = true ->
    result_after cfg (erase_foreign ns ops) q = result_after cfg ops q.
Proof. exact namespace_noninterference_load. Qed.
Print Assumptions C12_namespace_noninterference_load.

(* The full history language (px.AddTypes of object types and type sets - which bind type/, constructor/ and allocator/
   names -, declarations): after any history a definition or lookup of a name answers from the bindings of the name's
   namespace alone. *)
Theorem C12_full_namespace_local :
  forall cfg ns xs q,
    cfg_wf cfg = true -> forallb (xop_wf cfg) xs = true -> op_wf q = true -> ns_query ns q = true ->
    xresult_after cfg xs (XOp q) = XR (snd (step cfg (fst (xrun cfg xs)) q)) /\
    project (snd (step cfg (fst (xrun cfg xs)) q)) =
      snd (spec_step cfg (ns_restrict ns (abs (fst (xrun cfg xs)))) q).
Proof. exact xnamespace_local. Qed.
Print Assumptions C12_full_namespace_local.

(* Non-vacuity: the name `a` is looked up and bound under the namespaces x, function and type through a chain of three
   loaders and a type-set loader; every namespace keeps its own value; the erased history has 7 operations less and
   answers the lookups under x in the same way. *)
Definition ex_auth : str := [114]%N.
Definition ns_x : str := [120]%N.
Definition ns_fn : str := [102;117;110;99;116;105;111;110]%N.
Definition w0 := mkV 0 None false.
Definition w1 := mkV 1 None false.
Definition w2 := mkV 2 None false.
Definition tcar := mkV 100 (Some 100%N) true.
Definition ex_cfg : config :=
  mkCfg ex_auth [([114;47;116;121;112;101;47;105;110;116]%N, mkV 1000 (Some 1000%N) true)]
        [mkTs ex_auth [70;111;111]%N [([67;97;114]%N, tcar)]].
Definition xa := mkTn ex_auth ns_x [97]%N.
Definition fa := mkTn ex_auth ns_fn [65]%N.
Definition ta := mkTn ex_auth ns_type [97]%N.
Definition x_fooa := mkTn ex_auth ns_x [70;111;111;58;58;97]%N.
Definition ex_ops : list op :=
  [ONewDep; ONewParented 1; ONewTypeSet 2 0;
   OLoad 2 fa; OLoad 3 ta; ODefine 1 fa w1; OLoad 2 xa; ODefine 2 ta w2; ODefine 2 xa w0; OHas 3 fa; ODefine 2 fa w2;
   OLoadEntry 3 ta; ODiscover 3 PAll].

Example C12_namespace_nonvacuous :
  cfg_wf ex_cfg = true /\ forallb op_wf ex_ops = true /\
  erase_foreign ns_x ex_ops = [ONewDep; ONewParented 1; ONewTypeSet 2 0; OLoad 2 xa; ODefine 2 xa w0; ODiscover 3 PAll] /\
  ns_query ns_x (OLoad 3 x_fooa) = true /\
  result_after ex_cfg ex_ops (OLoad 3 x_fooa) = RFound (Some w0) /\
  result_after ex_cfg (erase_foreign ns_x ex_ops) (OLoad 3 x_fooa) = RFound (Some w0) /\
  result_after ex_cfg ex_ops (OLoad 3 fa) = RFound (Some w1) /\
  result_after ex_cfg ex_ops (OLoad 3 ta) = RFound (Some w2) /\
  result_after ex_cfg ex_ops (ODefine 3 xa w1) = RErr ERedefine /\
  result_after ex_cfg (erase_foreign ns_x ex_ops) (ODefine 3 xa w1) = RErr ERedefine /\
  map_key xa <> map_key (norm fa) /\
  ns_restrict ns_x (abs (fst (run ex_cfg ex_ops))) =
    [mkA KBasic []; mkA KDep []; mkA (KParented 1) [([114;47;120;47;97]%N, w0)]; mkA (KTypeSet 2 (mkTs ex_auth [70;111;111]%N [([67;97;114]%N, tcar)])) []].
Proof. vm_compute. repeat (split; [reflexivity|]). split; [discriminate|reflexivity]. Qed.

(* What "different namespaces" means: MapKey folds the letter case of the namespace too, so two namespaces that differ in
   letter case only are ONE namespace for every loader map (a binding made under `X` answers a lookup under `x`), whereas
   typeSet.GetType compares the namespace as it is (Model/Loader.v ts_get_type).  The library's namespaces are lower-case
   constants (px.NsType, px.NsFunction, ...); the statements above are about `ns_of` = the lower-cased namespace. *)
Definition ns_X : str := [88]%N.
Definition Xa := mkTn ex_auth ns_X [97]%N.
Example C12_namespace_case_folded :
  tn_wf xa = true /\ tn_wf Xa = true /\ tn_ns xa <> tn_ns Xa /\ map_key xa = map_key Xa /\ ns_of xa = ns_of Xa /\
  result_after ex_cfg [ONewDep; ODefine 1 Xa w0] (OLoad 1 xa) = RFound (Some w0).
Proof. vm_compute. repeat (split; [reflexivity|]). split; [discriminate|]. repeat (split; [reflexivity|]). reflexivity. Qed.
