(* C07 (continued) — the types whose parameters are rich values: Timestamp, Timespan, Runtime (Model/KeysRich.v).
   Statements only; the proofs are in Proofs/KeysRichProofs.v.

   gotime         = a time.Time: instant (ns since the Unix epoch, unbounded), offset of its location, monotonic reading
   tstype         = TimestampType{min, max};  ts_equals = Equals (time.Time.Equal on both bounds, which compares two times
                    that both carry a monotonic reading by the readings alone);  ts_key render = the bytes of ToKey, where
                    render is Timestamp.String() (an oracle: date arithmetic is not modelled);  ts_ok = neither bound
                    carries a reading;  ts_route / ts_build = the construction routes (NewTimestampType of times in any
                    zone with or without a reading; Timestamp[...] / the meta type with a Timestamp value, a parsed text or
                    hash, an Integer, default);  ts_denote = the two instants a route denotes
   sptype         = TimespanType{min, max} (int64 ns);  sp_equals, sp_key sp_text (sp_text = SerializationString(), modelled)
   rttype         = RuntimeType{runtime, name, pattern, goType} (goType: the identity of a reflect.Type);  rt_equals;
                    rt_key o (o: String(), PkgPath() and %p of a reflect.Type, oracles);  rt_wf = Go strings (< 2^64 bytes)

   The assumptions on the oracles are hypotheses of the statements (nothing is assumed globally): the text of a time
   in UTC determines the instant; texts are Go strings; PkgPath() and %p hold no byte
   <= 4, %p holds no '#', different type descriptors have different addresses. *)
From Coq Require Import ZArith NArith Bool String List.
From PcoreV Require Import Model.Base Model.Keys Model.KeysRich Proofs.KeysCode Proofs.KeysRichProofs Proofs.KeysRichText.
Import ListNotations.
Open Scope Z_scope.

(* ------------------------------------------------------------------------------------------ *)
(* Timestamp types *)

(* every construction route leaves both bounds without a monotonic reading (fixes 748affa, f601c93) *)
Theorem C07_timestamp_type_routes_strip_reading : forall r, ts_ok (ts_build r).
Proof. exact ts_build_ok. Qed.
Print Assumptions C07_timestamp_type_routes_strip_reading.

(* Equals is an equivalence, the same answer whichever operand receives the call *)
Theorem C07_timestamp_type_laws : forall a b c, ts_ok a -> ts_ok b -> ts_ok c ->
  ts_equals a a = true /\ ts_equals a b = ts_equals b a /\
  (ts_equals a b = true -> ts_equals b c = true -> ts_equals a c = true).
Proof.
  intros a b c Ha Hb Hc. split; [exact (ts_equals_refl a Ha)|]. split; [exact (ts_equals_sym a b Ha Hb)|].
  exact (ts_equals_trans a b c Ha Hb).
Qed.
Print Assumptions C07_timestamp_type_laws.

(* the same hash key exactly when equal (fix 31351c7: the bounds are printed in UTC) *)
Theorem C07_timestamp_type_key_iff_eq : forall render : gotime -> str,
  (forall a b, render (utc a) = render (utc b) -> t_inst a = t_inst b) -> (forall g, lenok (render g) = true) ->
  forall a b, ts_ok a -> ts_ok b -> (ts_key render a = ts_key render b <-> ts_equals a b = true).
Proof. intros render H1 H2 a b Ha _. exact (ts_key_iff_eq render H1 H2 a b Ha). Qed.
Print Assumptions C07_timestamp_type_key_iff_eq.

(* the construction route is not observable: two types whose bounds denote the same instants - whatever the zones, the
   monotonic readings, the kind of argument (time.Time, Timestamp value, text, hash, Integer, default) - are equal, have
   one key (any text function), and answer every Equals question alike, as receiver and as argument, against any
   third Timestamp type (even one whose bounds carry readings) *)
Theorem C07_timestamp_type_route_not_observable : forall (render : gotime -> str) r1 r2, ts_denote r1 = ts_denote r2 ->
  ts_equals (ts_build r1) (ts_build r2) = true /\
  ts_key render (ts_build r1) = ts_key render (ts_build r2) /\
  forall c, ts_equals (ts_build r1) c = ts_equals (ts_build r2) c /\ ts_equals c (ts_build r1) = ts_equals c (ts_build r2).
Proof. exact ts_route_not_observable. Qed.
Print Assumptions C07_timestamp_type_route_not_observable.

(* 2000-01-01T00:00:00 UTC .. max: NewTimestampType of a time in CET that carries a reading; Timestamp['..'] (parsed);
   the meta type with a Timestamp value in PDT.  Without Round(0) (the tree before 748affa) two separately built types
   with readings are unequal with one key. *)
Definition ex_t0 : Z := mk_inst 946684800 0.
Definition ex_render (g : gotime) : str := k_int (t_inst g) ++ k_int (t_zone g).
Example C07_ex_timestamp_type :
  let r1 := TRNew (mkTime ex_t0 3600 (Some 5)) max_time in
  let r2 := TRNew2 (BParsed ex_t0 0) None in
  let r3 := TRNew2 (BValue (mkTime ex_t0 (-25200) (Some 9))) (Some BDefault) in
  ts_denote r1 = ts_denote r2 /\ ts_denote r2 = ts_denote r3 /\
  ts_equals (ts_build r1) (ts_build r3) = true /\ ts_key ex_render (ts_build r1) = ts_key ex_render (ts_build r3) /\
  ts_equals (ts_build r1) (ts_build (TRNew2 (BInt 946684801 0) None)) = false /\
  ts_params ex_render (ts_build TRDefault) = [] /\
  length (ts_params ex_render (ts_build (TRNew2 BDefault (Some (BInt 0 0))))) = 2%nat /\
  (let raw m := mkTs (mkTime ex_t0 0 (Some m)) max_time in
   ts_equals (raw 1) (raw 2) = false /\ ts_key ex_render (raw 1) = ts_key ex_render (raw 2)).
Proof. repeat split; vm_compute; reflexivity. Qed.

(* ------------------------------------------------------------------------------------------ *)
(* Timespan types *)

Theorem C07_timespan_type_laws : forall a b c,
  sp_equals a a = true /\ sp_equals a b = sp_equals b a /\
  (sp_equals a b = true -> sp_equals b c = true -> sp_equals a c = true).
Proof. intros a b c. split; [exact (sp_equals_refl a)|]. split; [exact (sp_equals_sym a b)|exact (sp_equals_trans a b c)]. Qed.
Print Assumptions C07_timespan_type_laws.

(* the same hash key exactly when equal; sp_text is the modelled SerializationString (sign, seconds, '.', nine digits):
   no oracle - the text of a duration is proved to determine it (C07_timespan_text_determines_duration) *)
Theorem C07_timespan_type_key_iff_eq : forall a b, sp_wf a = true -> sp_wf b = true ->
  (sp_key sp_text a = sp_key sp_text b <-> sp_equals a b = true).
Proof. exact sp_key_text_iff_eq. Qed.
Print Assumptions C07_timespan_type_key_iff_eq.

Theorem C07_timespan_text_determines_duration : forall a b, sp_text a = sp_text b -> a = b.
Proof. exact sp_text_inj. Qed.
Print Assumptions C07_timespan_text_determines_duration.

(* two routes whose bounds denote the same durations build the same type *)
Theorem C07_timespan_type_route_not_observable : forall r1 r2, sp_denote r1 = sp_denote r2 -> sp_build r1 = sp_build r2.
Proof. exact sp_route_not_observable. Qed.
Print Assumptions C07_timespan_type_route_not_observable.

Example C07_ex_timespan_type :
  sp_build (SRNew2 (SInt 1) None) = sp_build (SRNew 1000000000 max_int64) /\
  sp_build (SRNew2 (SParsed 1500000000) (Some SDefault)) = sp_build (SRNew2 (SValue 1500000000) None) /\
  sp_equals (sp_build (SRNew2 (SInt 1) None)) (sp_build (SRNew2 (SParsed 1500000000) None)) = false /\
  sp_params sp_text (sp_build SRDefault) = [] /\
  sp_text (-1500000000) = bytes_of "-1.500000000" /\ sp_text 86400000000001 = bytes_of "86400.000000001" /\
  sp_text min_int64 = bytes_of "-9223372036.854775808" /\
  sp_key sp_text (sp_build (SRNew2 (SInt 1) None)) <> sp_key sp_text (sp_build (SRNew2 (SParsed 1500000000) None)).
Proof. repeat split; vm_compute; try reflexivity. discriminate. Qed.

(* ------------------------------------------------------------------------------------------ *)
(* Runtime types *)

(* Equals holds exactly for types with the same runtime, name, pattern and reflect.Type (fixes 1a8db06, 403c461): hence
   an equivalence, the same answer whichever operand receives the call, never a fault on an absent pattern *)
Theorem C07_runtime_type_equals_by_parts : forall a b, rt_equals a b = true <-> a = b.
Proof. exact rt_equals_true. Qed.
Print Assumptions C07_runtime_type_equals_by_parts.

Theorem C07_runtime_type_laws : forall a b c,
  rt_equals a a = true /\ rt_equals a b = rt_equals b a /\
  (rt_equals a b = true -> rt_equals b c = true -> rt_equals a c = true).
Proof. intros a b c. split; [exact (rt_equals_refl a)|]. split; [exact (rt_equals_sym a b)|exact (rt_equals_trans a b c)]. Qed.
Print Assumptions C07_runtime_type_laws.

(* the same hash key exactly when equal (fix 1709491: Runtime['', 'N'] has parameters; the key of a Go type ends in
   PkgPath() '#' address): a unique-decodability proof of ToKey with its raw tail *)
Theorem C07_runtime_type_key_iff_eq : forall o : gooracle,
  (forall i, name_ok (go_pkg o i)) -> (forall i, name_ok (go_ptr o i) /\ ~ In 35%N (go_ptr o i)) ->
  (forall i j, go_ptr o i = go_ptr o j -> i = j) ->
  forall a b, rt_wf a = true -> rt_wf b = true -> (rt_key o a = rt_key o b <-> rt_equals a b = true).
Proof. exact rt_key_iff_eq. Qed.
Print Assumptions C07_runtime_type_key_iff_eq.

(* whichever constructor (NewRuntimeType; the parsed text / the meta type with one, two or three arguments) *)
Theorem C07_runtime_type_route_not_observable : forall r n p r' n' p' t t',
  new_runtime_type r n p = Some t -> new_runtime_type r' n' p' = Some t' ->
  (rt_equals t t' = true <-> r = r' /\ n = n' /\ p = p').
Proof. exact rt_route_not_observable. Qed.
Print Assumptions C07_runtime_type_route_not_observable.

(* Go runtime types are told apart by the reflect.Type, not by its text *)
Theorem C07_go_runtime_type_by_identity : forall o i j,
  rt_equals (new_go_runtime_type o i) (new_go_runtime_type o j) = true <-> i = j.
Proof. exact go_runtime_by_identity. Qed.
Print Assumptions C07_go_runtime_type_by_identity.

(* Runtime['ruby','N',/a/] against Runtime['ruby','N'] (the input of 1a8db06), Runtime['','N'] against Runtime (1709491),
   two Go types with one text "T" in two packages (403c461) *)
Definition ex_go : gooracle :=
  mkGo (fun _ => bytes_of "T") (fun i => match i with O => bytes_of "a/p" | _ => bytes_of "b/p" end)
       (fun i => bytes_of "0xc0000" ++ [N.of_nat (48 + i)]).
Example C07_ex_runtime_type :
  let rb := bytes_of "ruby" in let n := bytes_of "N" in
  let t1 := mkRt rb n (Some (bytes_of "a")) None in let t2 := mkRt rb n None None in
  new_runtime_type rb n (Some (bytes_of "a")) = Some t1 /\ new_runtime_type2 rb (Some n) None = Some t2 /\
  rt_equals t1 t2 = false /\ rt_equals t2 t1 = false /\ rt_key ex_go t1 <> rt_key ex_go t2 /\
  new_runtime_type [] [] None = Some default_runtime_type /\ new_runtime_type2 [] None None = Some default_runtime_type /\
  rt_params default_runtime_type = [] /\ rt_params (mkRt [] n None None) = [VStr []; VStr n] /\
  new_runtime_type (bytes_of "go") n None = None /\
  rt_equals (new_go_runtime_type ex_go 0) (new_go_runtime_type ex_go 1) = false /\
  rt_name (new_go_runtime_type ex_go 0) = rt_name (new_go_runtime_type ex_go 1) /\
  rt_key ex_go (new_go_runtime_type ex_go 0) <> rt_key ex_go (new_go_runtime_type ex_go 1).
Proof. repeat split; vm_compute; try reflexivity; discriminate. Qed.
