(* C17 — Object types: constructors, init-hash, equality and inheritance cohere.
   This file holds ONLY the statements of the property theorems, each closed by `exact <lemma>`, and
   `Print Assumptions` beneath, plus non-vacuity examples.

   The model (Model/Obj.v) follows types/objecttype.go, objectvalue.go, attribute.go, attributesinfo.go,
   annotatedmember.go as they are after the fix: commits of known_findings/C17.json.

   `info_wf (d_info d)` is the layout invariant of attributesInfo (distinct names, required attributes
   first, given_or_derived has the implicit value undef, equality indexes in range).  It is evaluated by
   the correspondence run on every accepted definition outside the input class of the open finding
   `serialization-partial` (ser_complete d = false), see C17_serialization_partial_refuted below. *)
From Coq Require Import ZArith NArith Bool List String.
From PcoreV Require Import Model.Base Model.Obj Proofs.ObjProofs.
Import ListNotations.

(* ---- positional and named construction yield equal objects ----
   For every definition with a well-formed layout and EVERY argument tuple the positional constructor
   accepts: the named constructor accepts the hash {name_i => arg_i} and the two objects are equal
   (Equals in both directions). *)
Theorem C17_pos_named_equal :
  forall d args o, info_wf (d_info d) = true -> positional args -> new_object d args = Ok o ->
  exists o', new_object d [VHash (combine (map a_name (ai_attrs (d_info d))) args)] = Ok o' /\
             obj_eqb o o' = Ok true /\ obj_eqb o' o = Ok true.
Proof. exact pos_named_equal_info. Qed.
Print Assumptions C17_pos_named_equal.

(* ---- rebuilding an object from its init-hash yields an equal object ----
   For every constructed object (either constructor): InitHash does not fault, the named constructor
   accepts it, and the rebuilt object equals the original. *)
Theorem C17_init_hash_roundtrip :
  forall d args o, info_wf (d_info d) = true -> new_object d args = Ok o ->
  exists h o', init_hash o = Ok h /\ new_object d [VHash h] = Ok o' /\
               obj_eqb o o' = Ok true /\ obj_eqb o' o = Ok true.
Proof. exact init_hash_roundtrip_info. Qed.
Print Assumptions C17_init_hash_roundtrip.

(* ---- each attribute reads back the value given or its default ---- *)
Theorem C17_get_given_or_default_positional :
  forall d args o i a, info_wf (d_info d) = true -> positional args -> new_object d args = Ok o ->
  nth_error (ai_attrs (d_info d)) i = Some a ->
  get o (a_name a) = Ok (Some (match nth_error args i with Some v => v | None => default_of a end)) /\
  (nth_error args i = None -> a_value a <> None).
Proof. exact get_positional_info. Qed.
Print Assumptions C17_get_given_or_default_positional.

Theorem C17_get_given_or_default_named :
  forall d h o a, info_wf (d_info d) = true -> new_object d [VHash h] = Ok o ->
  In a (ai_attrs (d_info d)) ->
  get o (a_name a) = Ok (Some (given_or_default h a)) /\ (hget h (a_name a) = None -> a_value a <> None).
Proof. exact get_named_info. Qed.
Print Assumptions C17_get_given_or_default_named.

(* reading a constructed object never raises (no ATTRIBUTE_HAS_NO_VALUE, no index fault) *)
Theorem C17_get_total :
  forall d args o n, info_wf (d_info d) = true -> new_object d args = Ok o -> exists r, get o n = Ok r.
Proof. exact get_total_info. Qed.
Print Assumptions C17_get_total.

(* ---- objects compare equal exactly when their equality attributes are equal ----
   Two objects of one type: Equals never raises, and is true exactly when Get agrees on every
   attribute at the equality indexes; objects of different types are never equal. *)
Theorem C17_eq_iff_equality_attrs :
  forall d a1 a2 o1 o2, info_wf (d_info d) = true -> new_object d a1 = Ok o1 -> new_object d a2 = Ok o2 ->
  (obj_eqb o1 o2 = Ok true <-> forall n, In n (eq_names (d_info d)) -> get o1 n = get o2 n) /\
  (exists b, obj_eqb o1 o2 = Ok b).
Proof. exact eq_iff_info. Qed.
Print Assumptions C17_eq_iff_equality_attrs.

Theorem C17_other_type_not_equal :
  forall o1 o2, def_eqb (o_type o1) (o_type o2) = false -> obj_eqb o1 o2 = Ok false.
Proof. exact obj_eqb_other_type. Qed.
Print Assumptions C17_other_type_not_equal.

(* ---- an instance of a subtype is an instance of every ancestor, and never the reverse ----
   For EVERY object type (any parent chain, by induction along it). *)
Theorem C17_sub_instance_of_ancestors :
  forall o a, In a (ancestors (o_type o)) -> instance_of a o = true.
Proof. exact sub_instance_of_ancestors. Qed.
Print Assumptions C17_sub_instance_of_ancestors.

Theorem C17_never_the_reverse :
  forall d p a o, d_parent d = Some p -> In a (ancestors p) -> o_type o = a -> instance_of d o = false.
Proof. exact never_the_reverse. Qed.
Print Assumptions C17_never_the_reverse.

Local Open Scope string_scope.
(* ---- non-vacuity: a parent with a defaulted attribute and an equality list, a child overriding it ---- *)
Definition ex_ta : value :=
  VHash [(k_attributes, VHash [(s2l "a", VType (TInteger min_int64 max_int64));
                               (s2l "b", VHash [(k_type, VType (TInteger min_int64 max_int64)); (k_value, VInt 3)])]);
         (k_equality, VArr [VStr (s2l "a")])].
Definition ex_tb : value :=
  VHash [(k_parent, VType (TObj (s2l "Ta")));
         (k_attributes, VHash [(s2l "c", VType TString);
                               (s2l "b", VHash [(k_type, VType (TInteger 0 5)); (k_value, VInt 5); (k_override, VBool true)])])].

Example C17_nonvacuous :
  match define RText [] (s2l "Ta") ex_ta with
  | Ok ta =>
    match define RText [ta] (s2l "Tb") ex_tb with
    | Ok tb =>
      info_wf (d_info ta) = true /\ info_wf (d_info tb) = true /\ ser_complete tb = true /\
      map a_name (ai_attrs (d_info tb)) = [s2l "a"; s2l "c"; s2l "b"] /\ ai_req (d_info tb) = 2%nat /\
      match new_object tb [VInt 1; VStr (s2l "x")], new_object tb [VHash [(s2l "c", VStr (s2l "x")); (s2l "a", VInt 1)]],
            new_object tb [VInt 2; VStr (s2l "x"); VInt 5], new_object ta [VInt 1] with
      | Ok o1, Ok o2, Ok o3, Ok oa =>
        obj_eqb o1 o2 = Ok true /\ obj_eqb o1 o3 = Ok false /\
        get o1 (s2l "b") = Ok (Some (VInt 5)) /\ init_hash o3 = Ok [(s2l "a", VInt 2); (s2l "c", VStr (s2l "x"))] /\
        instance_of ta o1 = true /\ instance_of tb oa = false /\ positional [VInt 1; VStr (s2l "x")]
      | _, _, _, _ => False
      end
    | Err _ => False
    end
  | Err _ => False
  end.
Proof. vm_compute. repeat split; try reflexivity. intros h H; discriminate. Qed.
