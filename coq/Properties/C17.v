(* C17 — Object types: constructors, init-hash, equality and inheritance cohere.
   This file holds ONLY the statements of the property theorems, each closed by `exact <lemma>`, and
   `Print Assumptions` beneath, plus non-vacuity examples.

   The model (Model/Obj.v) follows types/objecttype.go, objectvalue.go, attribute.go, attributesinfo.go,
   annotatedmember.go as they are after the fix: commits of known_findings/C17.json.

   Quantifiers.  `accepted d`: d is a definition that `define` (objectType.InitFromHash, by the text
   route or the init-hash route) accepted in an environment built from accepted definitions — every
   history of definitions, any inheritance depth (induction over the history and the parent chain).
   `new_object d args = Ok o`: o is any object the constructor dispatch (named first, then positional)
   builds from any argument list.  `named_dispatch (d_info d) args = Some h`: the named constructor takes
   the call (args is one Hash h that is an instance of the init Struct); `= None`: the positional one is
   tried (a single Hash can still be a positional argument when the first attribute has type Any).
   Attribute types: Integer[lo,hi], String, Boolean, Optional[T], Array[T], Any, Undef, Variant[Undef,T],
   Struct[{k => T, Optional[k] => T, NotUndef[k] => T, ...}] at any nesting (values: Hashes that may leave optional
   members out; the named constructor checks them against typeAndInit of the type, `type_and_init`) —
   so a given_or_derived attribute may (Optional) or may not (Any, Undef, Variant) carry the implicit value
   undef; `default_of a` is undef for given_or_derived, the declared value otherwise.
   Guard.  `ser_complete d = true` excludes exactly the input class of the open finding
   `serialization-partial` (a `serialization` list that is not a duplicate-free enumeration of all
   constructor attributes); C17_statement is the unguarded statement, refuted below. *)
From Coq Require Import ZArith NArith Bool List String.
From PcoreV Require Import Model.Base Model.Obj Proofs.ObjProofs Proofs.ObjDefine Model.ObjNest Proofs.ObjNestProofs Proofs.ObjNestRound Proofs.ObjNestRep.
Import ListNotations.

(* ---- the layout: every declared constructor attribute (own, inherited, overriding — collectAttributes)
        has exactly one position, the layout invariant holds ---- *)
Theorem C17_layout :
  forall d, accepted d -> ser_complete d = true ->
  info_wf (d_info d) = true /\
  (forall a, In a (ai_attrs (d_info d)) -> In a (collect_attributes d) /\ is_ctor_kind (a_kind a) = true) /\
  (forall a, In a (collect_attributes d) -> is_ctor_kind (a_kind a) = true -> In a (ai_attrs (d_info d))).
Proof.
  exact (fun d Ha Hs => match accepted_facts d Ha with
                        | conj _ (conj _ H) => conj (lo_wf d (H Hs)) (conj (lo_sound d (H Hs)) (lo_complete d (H Hs)))
                        end).
Qed.
Print Assumptions C17_layout.

(* ---- positional and named construction yield equal objects ----
   EVERY argument tuple the positional constructor accepts: the named constructor accepts the hash
   {name_i => arg_i} and the two objects are equal (Equals in both directions). *)
Theorem C17_pos_named_equal :
  forall d, accepted d -> ser_complete d = true ->
  forall args o, named_dispatch (d_info d) args = None -> new_object d args = Ok o ->
  let h := combine (map a_name (ai_attrs (d_info d))) args in
  named_dispatch (d_info d) [VHash h] = Some h /\
  exists o', new_object d [VHash h] = Ok o' /\ obj_eqb o o' = Ok true /\ obj_eqb o' o = Ok true.
Proof. exact acc_pos_named_equal. Qed.
Print Assumptions C17_pos_named_equal.

(* ... and conversely: EVERY tuple (no longer than the layout) whose hash {name_i => arg_i} the named
   constructor accepts is accepted by the positional constructor, with an equal object.  (Hypothesis
   `named_dispatch .. args = None`: the tuple is not itself one named-argument hash.) *)
Theorem C17_named_pos_equal :
  forall d, accepted d -> ser_complete d = true ->
  forall args o',
  let h := combine (map a_name (ai_attrs (d_info d))) args in
  (List.length args <= List.length (ai_attrs (d_info d)))%nat ->
  named_dispatch (d_info d) [VHash h] = Some h -> new_object d [VHash h] = Ok o' ->
  named_dispatch (d_info d) args = None ->
  exists o, new_object d args = Ok o /\ obj_eqb o o' = Ok true /\ obj_eqb o' o = Ok true.
Proof. exact acc_named_pos_equal. Qed.
Print Assumptions C17_named_pos_equal.

(* ---- rebuilding an object from its init-hash yields an equal object ----
   Every constructed object (either constructor): InitHash does not fault, the named constructor
   accepts it, and the rebuilt object equals the original. *)
Theorem C17_init_hash_roundtrip :
  forall d, accepted d -> ser_complete d = true ->
  forall args o, new_object d args = Ok o ->
  exists h o', init_hash o = Ok h /\ named_dispatch (d_info d) [VHash h] = Some h /\ new_object d [VHash h] = Ok o' /\
               obj_eqb o o' = Ok true /\ obj_eqb o' o = Ok true.
Proof. exact acc_init_hash_roundtrip. Qed.
Print Assumptions C17_init_hash_roundtrip.

(* ---- each attribute reads back the value given or its default ----
   for every declared constructor attribute a of the type (own or inherited); an attribute that was not
   given is optional (given_or_derived or with a declared value) and reads `default_of a`: *)
Theorem C17_get_given_or_default_positional :
  forall d, accepted d -> ser_complete d = true ->
  forall args o a, named_dispatch (d_info d) args = None -> new_object d args = Ok o ->
  In a (collect_attributes d) -> is_ctor_kind (a_kind a) = true ->
  exists i, nth_error (ai_attrs (d_info d)) i = Some a /\
    get o (a_name a) = Ok (Some (match nth_error args i with Some v => v | None => default_of a end)) /\
    (nth_error args i = None -> is_opt_attr a = true).
Proof. exact acc_get_positional. Qed.
Print Assumptions C17_get_given_or_default_positional.

Theorem C17_get_given_or_default_named :
  forall d, accepted d -> ser_complete d = true ->
  forall args h o a, named_dispatch (d_info d) args = Some h -> new_object d args = Ok o ->
  In a (collect_attributes d) -> is_ctor_kind (a_kind a) = true ->
  get o (a_name a) = Ok (Some (given_or_default h a)) /\ (hget h (a_name a) = None -> is_opt_attr a = true).
Proof. exact acc_get_named. Qed.
Print Assumptions C17_get_given_or_default_named.

(* the default of a given_or_derived attribute is undef, whether or not its type made it carry a value
   (Optional[T]: the implicit value undef; Any, Undef, Variant[Undef,T]: no value at all) *)
Theorem C17_given_or_derived_default_undef :
  forall a, kind_eqb (a_kind a) KGivenOrDerived = true -> default_of a = VUndef.
Proof. exact default_of_god. Qed.
Print Assumptions C17_given_or_derived_default_undef.

(* a constant reads its declared value; a constructor attribute read through the type
   (Member(n).Get(o)) gives what Get gives; reading never raises *)
Theorem C17_get_constant :
  forall d, accepted d ->
  forall o a, o_type o = d -> In a (collect_attributes d) -> a_kind a = KConstant ->
  exists v, a_value a = Some v /\ attr_get o (a_name a) = AVal v.
Proof. exact acc_get_constant. Qed.
Print Assumptions C17_get_constant.

Theorem C17_get_through_type :
  forall d, accepted d ->
  forall o a v, o_type o = d -> In a (collect_attributes d) -> is_ctor_kind (a_kind a) = true ->
  get o (a_name a) = Ok (Some v) -> attr_get o (a_name a) = AVal v.
Proof. exact acc_attr_get. Qed.
Print Assumptions C17_get_through_type.

Theorem C17_get_total :
  forall d, accepted d -> ser_complete d = true ->
  forall args o n, new_object d args = Ok o -> exists r, get o n = Ok r.
Proof. exact acc_get_total. Qed.
Print Assumptions C17_get_total.

(* ---- objects compare equal exactly when their declared equality attributes are equal ----
   equality_attributes d = the names the type and its ancestors declare (or, for a level without a
   declaration, all its non-constant attributes).  Equals never raises; objects of different types
   are never equal. *)
Theorem C17_eq_iff_equality_attrs :
  forall d, accepted d -> ser_complete d = true ->
  forall a1 a2 o1 o2, new_object d a1 = Ok o1 -> new_object d a2 = Ok o2 ->
  (obj_eqb o1 o2 = Ok true <-> forall n, In n (equality_attributes d) -> get o1 n = get o2 n) /\
  (exists b, obj_eqb o1 o2 = Ok b).
Proof. exact acc_eq_iff. Qed.
Print Assumptions C17_eq_iff_equality_attrs.

Theorem C17_other_type_not_equal :
  forall o1 o2, def_eqb (o_type o1) (o_type o2) = false -> obj_eqb o1 o2 = Ok false.
Proof. exact obj_eqb_other_type. Qed.
Print Assumptions C17_other_type_not_equal.

(* ---- an instance of a subtype is an instance of every ancestor, and never the reverse ----
   For EVERY object type (any parent chain, by induction along it). *)
Theorem C17_sub_instance_of_ancestors :
  forall o a, In a (ancestors (o_type o)) -> instance_of a o = true.
Proof. exact sub_instance_of_ancestors. Qed.
Print Assumptions C17_sub_instance_of_ancestors.

Theorem C17_never_the_reverse :
  forall d p a o, d_parent d = Some p -> In a (ancestors p) -> o_type o = a -> instance_of d o = false.
Proof. exact never_the_reverse. Qed.
Print Assumptions C17_never_the_reverse.

(* ---- no runtime fault escapes ----
   objectType.InitFromHash (either route, ANY environment, name and init-hash) never raises a Go runtime
   fault (nil type assertion in createAttributesInfo, type assertion on the parent, missing `type` key):
   a definition is accepted or rejected with an issue.  A constructor call on an accepted definition
   builds an object or is rejected as ILLEGAL_ARGUMENTS (no index fault in PositionalFromHash, no
   MISSING_REQUIRED_ATTRIBUTE once the dispatch accepted the arguments). *)
Theorem C17_define_never_faults :
  forall rt env name hv, define rt env name hv <> Err EFault.
Proof. exact define_no_fault. Qed.
Print Assumptions C17_define_never_faults.

Theorem C17_ctor_reports :
  forall d args, accepted d -> ser_complete d = true ->
  (exists o, new_object d args = Ok o) \/ new_object d args = Err EIllegalArguments.
Proof. exact acc_new_object_total. Qed.
Print Assumptions C17_ctor_reports.

(* ---- the type a named argument is checked against (createInitType / typeAndInit) ----
   The named constructor checks the value given for attribute a against typeAndInit(a's type), the positional one
   against a's type.  For EVERY type of the fragment (any nesting of Optional, Array, Variant[Undef,.] and Struct
   around the scalars) the derived type is the declared type: it has the same instances, and a Struct member keeps
   its key - a member that may be left out of a positional value may be left out of the named one (the premise
   under which C17_pos_named_equal / C17_named_pos_equal / C17_init_hash_roundtrip, whose model `init_struct`
   contains type_and_init, hold for Struct-typed attributes). *)
Theorem C17_init_type_is_declared_type :
  forall t, type_and_init t = t.
Proof. exact type_and_init_id. Qed.
Print Assumptions C17_init_type_is_declared_type.

Theorem C17_named_argument_type_same_instances :
  forall t v, inst (type_and_init t) v = inst t v.
Proof. exact inst_type_and_init. Qed.
Print Assumptions C17_named_argument_type_same_instances.

Theorem C17_struct_member_keys_kept :
  forall t, struct_reqs (type_and_init t) = struct_reqs t.
Proof. exact struct_reqs_type_and_init. Qed.
Print Assumptions C17_struct_member_keys_kept.

(* the Struct type in the signature of the named constructor (compared with the implementation's on every run) is
   the test the dispatch applies: named_dispatch takes [v] exactly when v is an instance of it *)
Theorem C17_init_type_is_named_dispatch_test :
  forall info v, inst (init_type info) v = struct_inst (init_struct info) v.
Proof. exact init_type_inst. Qed.
Print Assumptions C17_init_type_is_named_dispatch_test.

(* ---- the open finding: the unguarded statement is false of the faithful model ---- *)
Definition C17_statement : Prop :=
  forall d, accepted d ->
  forall args o a, named_dispatch (d_info d) args = None -> new_object d args = Ok o ->
  In a (collect_attributes d) -> is_ctor_kind (a_kind a) = true ->
  exists i, nth_error (ai_attrs (d_info d)) i = Some a /\
    get o (a_name a) = Ok (Some (match nth_error args i with Some v => v | None => default_of a end)).

(* serialization => ['a'] with a and b required: Ta(1) is constructed, Get('b') finds nothing *)
Theorem C17_serialization_partial_refuted :
  exists d args o a, accepted d /\ ser_complete d = false /\ named_dispatch (d_info d) args = None /\
    new_object d args = Ok o /\
    In a (collect_attributes d) /\ is_ctor_kind (a_kind a) = true /\ is_opt_attr a = false /\
    get o (a_name a) = Ok None.
Proof. exact serialization_omit_refuted. Qed.
Print Assumptions C17_serialization_partial_refuted.

(* serialization => ['a','a']: Ta(1, 2) is constructed, the value given at position 0 does not read back *)
Theorem C17_serialization_twice_refuted :
  exists d args o a, accepted d /\ ser_complete d = false /\ named_dispatch (d_info d) args = None /\
    new_object d args = Ok o /\
    nth_error (ai_attrs (d_info d)) 0 = Some a /\ nth_error args 0 = Some (VInt 1) /\
    get o (a_name a) = Ok (Some (VInt 2)).
Proof. exact serialization_twice_refuted. Qed.
Print Assumptions C17_serialization_twice_refuted.

(* ---- non-vacuity: a parent with a defaulted attribute and an equality list, a child overriding it ---- *)
Local Open Scope string_scope.
Definition ex_ta : value :=
  VHash [(k_attributes, VHash [(s2l "a", VType (TInteger min_int64 max_int64));
                               (s2l "b", VHash [(k_type, VType (TInteger min_int64 max_int64)); (k_value, VInt 3)])]);
         (k_equality, VArr [VStr (s2l "a")])].
Definition ex_tb : value :=
  VHash [(k_name, VStr (s2l "Tb")); (k_parent, VType (TObj (s2l "Ta")));
         (k_attributes, VHash [(s2l "c", VType TString);
                               (s2l "b", VHash [(k_type, VType (TInteger 0 5)); (k_value, VInt 5); (k_override, VBool true)])]);
         (k_constants, VHash [(s2l "k", VInt 9)])].

Example C17_nonvacuous :
  match define RText [] (s2l "Ta") ex_ta with
  | Ok ta =>
    match define RHash [ta] [] ex_tb with
    | Ok tb =>
      accepted_env [ta; tb] /\ ser_complete ta = true /\ ser_complete tb = true /\
      map a_name (ai_attrs (d_info tb)) = [s2l "a"; s2l "c"; s2l "b"] /\ ai_req (d_info tb) = 2%nat /\
      equality_attributes tb = [s2l "c"; s2l "b"; s2l "a"] /\
      match new_object tb [VInt 1; VStr (s2l "x")], new_object tb [VHash [(s2l "c", VStr (s2l "x")); (s2l "a", VInt 1)]],
            new_object tb [VInt 2; VStr (s2l "x"); VInt 5], new_object ta [VInt 1] with
      | Ok o1, Ok o2, Ok o3, Ok oa =>
        obj_eqb o1 o2 = Ok true /\ obj_eqb o1 o3 = Ok false /\
        get o1 (s2l "b") = Ok (Some (VInt 5)) /\ attr_get o1 (s2l "k") = AVal (VInt 9) /\
        init_hash o3 = Ok [(s2l "a", VInt 2); (s2l "c", VStr (s2l "x"))] /\
        instance_of ta o1 = true /\ instance_of tb oa = false /\
        named_dispatch (d_info tb) [VInt 1; VStr (s2l "x")] = None
      | _, _, _, _ => False
      end
    | Err _ => False
    end
  | Err _ => False
  end.
Proof.
  destruct (define RText [] (s2l "Ta") ex_ta) as [ta|] eqn:Ea; [|vm_compute in Ea; discriminate].
  destruct (define RHash [ta] [] ex_tb) as [tb|] eqn:Eb; [|vm_compute in Ea; inversion Ea; subst; vm_compute in Eb; discriminate].
  split.
  { change [ta; tb] with (([] ++ [ta]) ++ [tb])%list. eapply ae_def; [eapply ae_def; [constructor|exact Ea]|exact Eb]. }
  vm_compute in Ea. inversion Ea; subst ta. clear Ea. vm_compute in Eb. inversion Eb; subst tb. clear Eb.
  vm_compute. repeat split; try reflexivity.
Qed.

(* ---- non-vacuity of the given_or_derived clauses: attributes whose type accepts undef without being an
        Optional carry NO value; read after a positional construction that omits them they are undef, the
        named counterpart stores the undef, the two objects are equal and so is the one rebuilt from the
        init-hash; with a serialization list the required count does not include them ----
   type Tg = Object[{attributes => {a => Integer, g => {type => Any, kind => given_or_derived},
                                    v => {type => Variant[Undef,String], kind => given_or_derived},
                                    o => {type => Integer, kind => given_or_derived}},
                     serialization => ['a', 'o', 'g', 'v']}] *)
Definition ex_god (t : ty) : value := VHash [(k_type, VType t); (k_kind, VStr s_given_or_derived)].
Definition ex_tg : value :=
  VHash [(k_attributes, VHash [(s2l "a", VType (TInteger min_int64 max_int64)); (s2l "g", ex_god TAny);
                               (s2l "v", ex_god (TVarUndef TString)); (s2l "o", ex_god (TInteger min_int64 max_int64))]);
         (k_serialization, VArr [VStr (s2l "a"); VStr (s2l "o"); VStr (s2l "g"); VStr (s2l "v")])].

Example C17_given_or_derived_nonvacuous :
  match define RText [] (s2l "Tg") ex_tg with
  | Ok tg =>
    accepted tg /\ ser_complete tg = true /\ ai_req (d_info tg) = 1%nat /\
    map (fun a => (a_type a, a_value a)) (ai_attrs (d_info tg)) =
      [(TInteger min_int64 max_int64, None); (TOptional (TInteger min_int64 max_int64), Some VUndef);
       (TAny, None); (TVarUndef TString, None)] /\
    match new_object tg [VInt 1], new_object tg [VHash [(s2l "a", VInt 1)]], new_object tg [VInt 1; VUndef; VStr (s2l "x")] with
    | Ok o1, Ok o2, Ok o3 =>
      o_vals o1 = [VInt 1] /\ o_vals o2 = [VInt 1; VUndef; VUndef; VUndef] /\
      get o1 (s2l "g") = Ok (Some VUndef) /\ get o1 (s2l "v") = Ok (Some VUndef) /\ get o1 (s2l "o") = Ok (Some VUndef) /\
      attr_get o1 (s2l "g") = AVal VUndef /\
      obj_eqb o1 o2 = Ok true /\ obj_eqb o2 o1 = Ok true /\ obj_eqb o1 o3 = Ok false /\
      init_hash o2 = Ok [(s2l "a", VInt 1)] /\ init_hash o3 = Ok [(s2l "a", VInt 1); (s2l "g", VStr (s2l "x"))]
    | _, _, _ => False
    end
  | Err _ => False
  end.
Proof.
  destruct (define RText [] (s2l "Tg") ex_tg) as [tg|] eqn:E; [|vm_compute in E; discriminate].
  split; [exact (accepted_single _ _ _ E)|].
  vm_compute in E. inversion E; subst tg. clear E. vm_compute. repeat split; reflexivity.
Qed.

(* ---- non-vacuity of the Struct part: an attribute of a Struct type with an explicitly optional member whose
        value type does not accept undef, directly and below Array; the value leaves the member out ----
   type Ts = Object[{attributes => {a => Integer, s => Struct[{Optional['x'] => Integer, 'y' => String}],
                                    l => {type => Array[Struct[{'m' => Integer, Optional['n'] => Integer[0,5]}]], value => []}}}] *)
Definition ex_sxy : ty := TStructCons (s2l "x") false (TInteger min_int64 max_int64) (TStructCons (s2l "y") true TString TStructNil).
Definition ex_smn : ty := TStructCons (s2l "m") true (TInteger min_int64 max_int64) (TStructCons (s2l "n") false (TInteger 0 5) TStructNil).
Definition ex_ts : value :=
  VHash [(k_attributes, VHash [(s2l "a", VType (TInteger min_int64 max_int64)); (s2l "s", VType ex_sxy);
                               (s2l "l", VHash [(k_type, VType (TArray ex_smn)); (k_value, VArr [])])])].

Example C17_struct_nonvacuous :
  match define RText [] (s2l "Ts") ex_ts with
  | Ok ts =>
    accepted ts /\ ser_complete ts = true /\ ai_req (d_info ts) = 2%nat /\
    let sv := VHash [(s2l "y", VStr (s2l "v"))] in
    let lv := VArr [VHash [(s2l "m", VInt 3)]] in
    inst ex_sxy sv = true /\ inst ex_sxy (VHash [(s2l "x", VInt 1)]) = false /\
    inst ex_sxy (VHash [(s2l "y", VStr (s2l "v")); (s2l "z", VInt 1)]) = false /\
    asg ex_sxy (TStructCons (s2l "y") true TString TStructNil) = true /\
    asg (TStructCons (s2l "y") true TString TStructNil) ex_sxy = false /\
    match new_object ts [VInt 1; sv; lv], new_object ts [VHash [(s2l "a", VInt 1); (s2l "s", sv); (s2l "l", lv)]],
          new_object ts [VInt 1; sv], new_object ts [VHash [(s2l "a", VInt 1); (s2l "s", VHash [(s2l "x", VInt 1)])]] with
    | Ok o1, Ok o2, Ok o3, Err e =>
      obj_eqb o1 o2 = Ok true /\ obj_eqb o2 o1 = Ok true /\ obj_eqb o1 o3 = Ok false /\
      get o2 (s2l "s") = Ok (Some sv) /\ get o3 (s2l "l") = Ok (Some (VArr [])) /\
      init_hash o1 = Ok [(s2l "a", VInt 1); (s2l "s", sv); (s2l "l", lv)] /\
      init_hash o3 = Ok [(s2l "a", VInt 1); (s2l "s", sv)] /\
      named_dispatch (d_info ts) [VHash [(s2l "a", VInt 1); (s2l "s", sv)]] <> None /\ e = EIllegalArguments
    | _, _, _, _ => False
    end
  | Err _ => False
  end.
Proof.
  destruct (define RText [] (s2l "Ts") ex_ts) as [ts|] eqn:E; [|vm_compute in E; discriminate].
  split; [exact (accepted_single _ _ _ E)|].
  vm_compute in E. inversion E; subst ts. clear E. vm_compute. repeat split; try reflexivity; discriminate.
Qed.

(* ---- attributes whose type is, or contains, another Object type (Model/ObjNest.v: typeAndInit for an Object type,
        coerceTo, the merge of the coerced entries in the named creator, the positional creator after the fix: 0abd0ef).
        Types: Integer, String, Optional, Array, Hash[String, .], Struct, Object types (referred to by containing their
        constructor attributes: any nesting depth, no self reference); `nwf`: distinct names, declared values well typed.
        Object values are in normal form (type name + the value of every constructor attribute), so that two objects are
        Equal exactly when their normal forms are the same. ---- *)

(* Each attribute reads back an INSTANCE of its declared type: whatever either constructor builds - from instances, from
   nested init-hashes at any depth, or from a mixture - is an instance of the Object type, i.e. holds at every position an
   instance of that attribute's type (never the raw init-hash) *)
Theorem C17_nested_constructed_is_instance :
  forall n attrs args v, nwf (NObj n attrs) = true -> nnew n attrs args = NOk v -> ninst (NObj n attrs) v = true.
Proof. exact nnew_instance. Qed.
Print Assumptions C17_nested_constructed_is_instance.

Theorem C17_nested_named_is_instance :
  forall n attrs h v, nwf (NObj n attrs) = true -> named_new n attrs h = NOk v -> ninst (NObj n attrs) v = true.
Proof. exact named_new_instance. Qed.
Print Assumptions C17_nested_named_is_instance.

(* coerceTo: the result is an instance of the type, and an instance is returned as it is (so giving the instance by name is
   giving it positionally) *)
Theorem C17_nested_coerce_gives_instance :
  forall t v v', nwf t = true -> coerce t v = Some v' -> ninst t v' = true.
Proof. exact coerce_gives_instance. Qed.
Print Assumptions C17_nested_coerce_gives_instance.

Theorem C17_nested_coerce_keeps_instance :
  forall t v, ninst t v = true -> coerce t v = Some v.
Proof. exact coerce_instance_id. Qed.
Print Assumptions C17_nested_coerce_keeps_instance.

(* the hash the named creator hands to InitFromHash (`oh.Merge(WrapHash(el))`) holds under every name the COERCED value when
   there is one, the given value otherwise *)
Theorem C17_nested_merge_coerced_wins :
  forall h el k, nhget (nhmerge h el) k = match nhget el k with Some v => Some v | None => nhget h k end.
Proof. exact nhget_merge. Qed.
Print Assumptions C17_nested_merge_coerced_wins.

(* the type a named argument is checked against (typeAndInit) admits every instance of the declared type *)
Theorem C17_nested_init_type_admits_instances :
  forall t v, ninst t v = true -> ninst_init t v = true.
Proof. exact ninst_ninst_init. Qed.
Print Assumptions C17_nested_init_type_admits_instances.

(* ---- depth pass of 2026-10-02: the two clauses that were only evaluated per constructed object are theorems for ALL
        well-formed types and ALL instances (Proofs/ObjNestRound.v; induction over the type - a type contains the Object types
        it refers to, so the nesting order of a world is the subterm order of `nty` - mutually over a type and its member /
        attribute list).  `nwf` is the boolean well-formedness predicate; the correspondence evaluates it on the type of every
        constructed object of every run (Corr/CorrC17.v nested_check), the Example below on the world Inner / Outer / Deep. ---- *)

(* coerceTo of the full init-hash form of an instance (every nested object, at every depth, replaced by the Hash of all its
   attributes by name) gives the instance back *)
Theorem C17_nested_coerce_init_form :
  forall t v, nwf t = true -> ninst t v = true -> coerce t (to_init t v) = Some v.
Proof. exact coerce_to_init. Qed.
Print Assumptions C17_nested_coerce_init_form.

(* that form is an instance of typeAndInit(type): the named dispatcher takes it *)
Theorem C17_nested_init_form_is_init_instance :
  forall t v, nwf t = true -> ninst t v = true -> ninst_init t (to_init t v) = true.
Proof. exact init_form_admitted. Qed.
Print Assumptions C17_nested_init_form_is_init_instance.

(* named construction from init-hashes = named construction from instances = positional construction: for every instance
   NVObj n vals of a well-formed Object type, px.New with the single Hash {name_i => init-hash form of v_i} goes to the named
   creator and builds that object; the named creator builds it from {name_i => v_i} (zipv); the positional creator builds it
   from the tuple vals *)
Theorem C17_nested_forms_build_one_object :
  forall n attrs vals, nwf (NObj n attrs) = true -> ninst (NObj n attrs) (NVObj n vals) = true ->
  nnew n attrs [NVHash (to_init_vals attrs vals)] = NOk (NVObj n vals)
  /\ named_new n attrs (to_init_vals attrs vals) = NOk (NVObj n vals)
  /\ named_new n attrs (zipv attrs vals) = NOk (NVObj n vals)
  /\ positional_new n attrs vals = NOk (NVObj n vals).
Proof. exact named_from_init. Qed.
Print Assumptions C17_nested_forms_build_one_object.

(* the InitHash round trip of the family: the named creator accepts InitHash(o) and rebuilds o, and px.New(T, o.InitHash())
   dispatches to it (a declared value that was dropped from the hash comes back as the declared value: nvalue_eqb is sound) *)
Theorem C17_nested_init_hash_roundtrip :
  forall n attrs vals, nwf (NObj n attrs) = true -> ninst (NObj n attrs) (NVObj n vals) = true ->
  named_new n attrs (ninit_hash attrs vals) = NOk (NVObj n vals)
  /\ nnew n attrs [NVHash (ninit_hash attrs vals)] = NOk (NVObj n vals).
Proof. exact named_init_hash_roundtrip. Qed.
Print Assumptions C17_nested_init_hash_roundtrip.

(* with C17_nested_constructed_is_instance: whatever px.New builds from ANY argument list is rebuilt from its InitHash *)
Theorem C17_nested_constructed_roundtrip :
  forall n attrs args m vals, nwf (NObj n attrs) = true -> nnew n attrs args = NOk (NVObj m vals) ->
  nnew n attrs [NVHash (ninit_hash attrs vals)] = NOk (NVObj m vals)
  /\ coerce (NObj n attrs) (to_init (NObj n attrs) (NVObj m vals)) = Some (NVObj m vals).
Proof. exact constructed_roundtrip. Qed.
Print Assumptions C17_nested_constructed_roundtrip.

(* EVERY form that denotes an instance (Model/ObjNest.v `repb t x v`: x is v, or agrees with v element by element / entry by
   entry where an object may be given as a Hash whose keys are attribute names, holding under name_i a form of vals_i or nothing
   when vals_i is the declared value - the forms named-init-hash and named-mixed of the harness, init-hashes with or without the
   defaulted attributes, at any depth) is an instance of typeAndInit(t) and coerceTo gives exactly that instance
   (Proofs/ObjNestRep.v) *)
Theorem C17_nested_every_form_coerces :
  forall t x v, nwf t = true -> ninst t v = true -> repb t x v = true -> coerce t x = Some v /\ ninst_init t x = true.
Proof. exact rep_coerce. Qed.
Print Assumptions C17_nested_every_form_coerces.

(* hence named construction from ANY mixture of instances and init-hashes builds the SAME object (pos-named-equal of the
   family at full strength): the hypothesis repb is evaluated by the correspondence on the argument hash of every named
   construction of every run against the object the real code built *)
Theorem C17_nested_every_form_builds_the_object :
  forall n attrs h vals, nwf (NObj n attrs) = true -> ninst (NObj n attrs) (NVObj n vals) = true ->
  repb (NObj n attrs) (NVHash h) (NVObj n vals) = true ->
  named_new n attrs h = NOk (NVObj n vals) /\ nnew n attrs [NVHash h] = NOk (NVObj n vals).
Proof. exact rep_named_new. Qed.
Print Assumptions C17_nested_every_form_builds_the_object.

(* and positional construction from every tuple that denotes the object (`posrep`: argument i is value i, in any denoting form
   where the type of attribute i IS an Object type - the form positional-init-hash of the harness, after fix: 0abd0ef -, the
   attributes not given hold their declared values) builds that same object *)
Theorem C17_nested_every_tuple_builds_the_object :
  forall n attrs args vals, nwf (NObj n attrs) = true -> ninst (NObj n attrs) (NVObj n vals) = true ->
  posrep attrs args vals = true -> positional_new n attrs args = NOk (NVObj n vals).
Proof. exact rep_positional_new. Qed.
Print Assumptions C17_nested_every_tuple_builds_the_object.

Definition ex_inner : nty :=
  NCons (s2l "x") None NInt (NCons (s2l "y") (Some (NVStr (s2l "y"))) NStr NNil).
Definition ex_outer : nty :=
  NCons (s2l "i") None (NObj (s2l "Inner") ex_inner) (NCons (s2l "n") (Some (NVInt 0)) NInt NNil).
Definition ex_deep : nty :=
  NCons (s2l "o") None (NObj (s2l "Outer") ex_outer)
   (NCons (s2l "k") None (NArr (NOpt (NObj (s2l "Outer") ex_outer))) NNil).

Example C17_nested_nonvacuous :
  let in1 := NVObj (s2l "Inner") [NVInt 1; NVStr (s2l "y")] in
  let out1 := NVObj (s2l "Outer") [in1; NVInt 0] in
  let out5 := NVObj (s2l "Outer") [in1; NVInt 5] in
  let ih := NVHash [(s2l "x", NVInt 1)] in
  nwf (NObj (s2l "Deep") ex_deep) = true /\
  (* positional with the instance, positional with the init-hash (fix: 0abd0ef), by name with the instance, by name with the
     init-hash: one object *)
  nnew (s2l "Outer") ex_outer [in1] = NOk out1 /\
  nnew (s2l "Outer") ex_outer [ih; NVInt 5] = NOk out5 /\
  nnew (s2l "Outer") ex_outer [NVHash [(s2l "i", in1)]] = NOk out1 /\
  nnew (s2l "Outer") ex_outer [NVHash [(s2l "n", NVInt 5); (s2l "i", ih)]] = NOk out5 /\
  (* two levels, below Array and Optional, mixed *)
  nnew (s2l "Deep") ex_deep [NVHash [(s2l "o", NVHash [(s2l "i", ih)]);
                                     (s2l "k", NVArr [NVUndef; out5; NVHash [(s2l "i", ih); (s2l "n", NVInt 5)]])]]
    = NOk (NVObj (s2l "Deep") [out1; NVArr [NVUndef; out5; out5]]) /\
  ninit_hash ex_outer [in1; NVInt 0] = [(s2l "i", in1)] /\
  coerce (NObj (s2l "Outer") ex_outer) (to_init (NObj (s2l "Outer") ex_outer) out5) = Some out5 /\
  (* an ill-typed nested init-hash is rejected by the dispatcher; a missing required attribute too *)
  nnew (s2l "Outer") ex_outer [NVHash [(s2l "i", NVHash [(s2l "x", NVStr (s2l "a"))])]] = NIllegalArguments /\
  nnew (s2l "Outer") ex_outer [NVHash [(s2l "i", NVHash [])]] = NIllegalArguments /\
  (* the merge in the other direction (seeded change C17-m9) would keep the raw init-hash *)
  nhget (nhmerge [(s2l "i", in1)] [(s2l "i", ih)]) (s2l "i") = Some ih.
Proof. vm_compute. repeat split; reflexivity. Qed.

(* non-vacuity of the depth pass: the world Inner / Outer / Deep satisfies `nwf`, a two-level instance (an Outer directly and
   below Array / Optional, the declared value of `n` once kept and once replaced) satisfies the hypotheses of
   C17_nested_coerce_init_form / _forms_build_one_object / _init_hash_roundtrip; its init-hash form is no instance of the type
   but of typeAndInit(type); InitHash drops exactly the attribute that holds its declared value *)
Example C17_nested_roundtrip_nonvacuous :
  let in1 := NVObj (s2l "Inner") [NVInt 1; NVStr (s2l "y")] in
  let out1 := NVObj (s2l "Outer") [in1; NVInt 0] in
  let out5 := NVObj (s2l "Outer") [in1; NVInt 5] in
  let arr := NVArr [NVUndef; out5] in
  let t := NObj (s2l "Deep") ex_deep in
  let deep := NVObj (s2l "Deep") [out1; arr] in
  nwf t = true /\ ninst t deep = true /\
  ninst t (to_init t deep) = false /\ ninst_init t (to_init t deep) = true /\
  to_init (NObj (s2l "Outer") ex_outer) out5
    = NVHash [(s2l "i", NVHash [(s2l "x", NVInt 1); (s2l "y", NVStr (s2l "y"))]); (s2l "n", NVInt 5)] /\
  coerce t (to_init t deep) = Some deep /\
  zipv ex_deep [out1; arr] = [(s2l "o", out1); (s2l "k", arr)] /\
  named_new (s2l "Deep") ex_deep (zipv ex_deep [out1; arr]) = NOk deep /\
  positional_new (s2l "Deep") ex_deep [out1; arr] = NOk deep /\
  nnew (s2l "Deep") ex_deep [NVHash (to_init_vals ex_deep [out1; arr])] = NOk deep /\
  ninit_hash ex_outer [in1; NVInt 0] = [(s2l "i", in1)] /\
  ninit_hash ex_outer [in1; NVInt 5] = [(s2l "i", in1); (s2l "n", NVInt 5)] /\
  nnew (s2l "Outer") ex_outer [NVHash (ninit_hash ex_outer [in1; NVInt 0])] = NOk out1 /\
  nnew (s2l "Deep") ex_deep [NVHash (ninit_hash ex_deep [out1; arr])] = NOk deep /\
  (* a mixed form: o as an init-hash that leaves the defaulted n out and gives i as an instance, k with one element as an
     instance and one as an init-hash that gives everything; it denotes deep, a form with another n does not *)
  let mixed := [(s2l "k", NVArr [NVUndef; NVHash [(s2l "n", NVInt 5); (s2l "i", NVHash [(s2l "x", NVInt 1)])]]);
                (s2l "o", NVHash [(s2l "i", in1)])] in
  repb t (NVHash mixed) deep = true /\ ninst_init t (NVHash mixed) = true /\
  nnew (s2l "Deep") ex_deep [NVHash mixed] = NOk deep /\
  repb t (NVHash [(s2l "k", arr); (s2l "o", NVHash [(s2l "i", in1); (s2l "n", NVInt 7)])]) deep = false /\
  repb t (to_init t deep) deep = true /\ repb t (NVHash (ninit_hash ex_deep [out1; arr])) deep = true /\
  (* positionally: i as an init-hash, n left out *)
  posrep ex_outer [NVHash [(s2l "x", NVInt 1)]] [in1; NVInt 0] = true /\
  positional_new (s2l "Outer") ex_outer [NVHash [(s2l "x", NVInt 1)]] = NOk out1 /\
  posrep ex_outer [NVHash [(s2l "x", NVInt 2)]] [in1; NVInt 0] = false.
Proof. vm_compute. repeat split; reflexivity. Qed.
