(* C03 — Assignability is a preorder, monotone per constructor, consistent with equality.
   ONLY statements, each closed by `exact <lemma>`, with `Print Assumptions` beneath.
   Model: Model/Lattice.v (`asg rx true` = GuardedIsAssignable + the receiver's IsAssignable, with the by-specification
   Struct<-Hash rule enabled = the code as it is), Model/TyEq.v (`ty_eqb` = Type.Equals).  `wf_ty` = what the Go
   constructors guarantee (case-insensitive Enum holds lower-cased values, a Tuple without explicit size has the
   size of its type list, Struct member names distinct and keys String[name] / Optional[String[name]], no type from
   outside the model).  `rx` (Go regexp matching) is arbitrary.  The model has no pointer identity: every law is
   about separately constructed copies. *)
From Coq Require Import ZArith NArith Bool List.
From PcoreV Require Import Model.Base Model.Ty Model.Lattice Model.TyEq Proofs.LatticeBasics Proofs.LatticeRule
  Proofs.LatticeOrder Proofs.LatticeEq Proofs.LatticeTransBasics Proofs.LatticeTrans Proofs.LatticeStructHashKey.
Import ListNotations.
Open Scope Z_scope.

Section C03.
  Variable rx : str -> str -> bool.
  Notation "a ⊒ b" := (asg rx true a b = true) (at level 70).

  (* A accepts a separately constructed copy of itself *)
  Theorem C03_refl : forall a, wf_ty a = true -> a ⊒ a.
  Proof. exact (asg_refl rx true). Qed.

  (* equal types accept each other (Equals is a set comparison for Enum, Pattern, Variant) *)
  Theorem C03_equal_accept : forall a b, ty_eqb a b = true -> wf_ty a = true -> wf_ty b = true -> a ⊒ b /\ b ⊒ a.
  Proof. exact (eq_accepts rx true). Qed.

  (* monotonicity of every covariant position of the modelled constructors *)
  Theorem C03_mono_array : forall a b lo hi, a ⊒ b -> TArray a lo hi ⊒ TArray b lo hi.
  Proof. exact (mono_array rx true). Qed.
  Theorem C03_mono_hash_key : forall a b v lo hi, wf_ty v = true -> a ⊒ b -> THash a v lo hi ⊒ THash b v lo hi.
  Proof. exact (mono_hash_key rx true). Qed.
  Theorem C03_mono_hash_value : forall k a b lo hi, wf_ty k = true -> a ⊒ b -> THash k a lo hi ⊒ THash k b lo hi.
  Proof. exact (mono_hash_value rx true). Qed.
  Theorem C03_mono_tuple_slot : forall pre post a b g lo hi, forallb wf_ty pre = true -> forallb wf_ty post = true ->
    a ⊒ b -> TTuple (pre ++ a :: post) g lo hi ⊒ TTuple (pre ++ b :: post) g lo hi.
  Proof. exact (mono_tuple rx true). Qed.
  Theorem C03_mono_struct_member : forall pre post n k a b, wf_ty (TStruct (pre ++ (n, (k, a)) :: post)) = true ->
    a ⊒ b -> TStruct (pre ++ (n, (k, a)) :: post) ⊒ TStruct (pre ++ (n, (k, b)) :: post).
  Proof. exact (mono_struct rx true). Qed.
  Theorem C03_mono_variant_member : forall pre post a b, forallb wf_ty pre = true -> forallb wf_ty post = true ->
    a ⊒ b -> TVariant (pre ++ a :: post) ⊒ TVariant (pre ++ b :: post).
  Proof. exact (mono_variant rx true). Qed.
  Theorem C03_mono_optional : forall a b, a ⊒ b -> TOptional a ⊒ TOptional b.
  Proof. exact (mono_optional rx true). Qed.
  Theorem C03_mono_notundef : forall a b, a ⊒ b -> TNotUndef a ⊒ TNotUndef b.
  Proof. exact (mono_notundef rx true). Qed.
  Theorem C03_mono_type : forall a b, a ⊒ b -> TType a ⊒ TType b.
  Proof. exact (mono_type rx true). Qed.
  Theorem C03_mono_sensitive : forall a b, a ⊒ b -> TSensitive a ⊒ TSensitive b.
  Proof. exact (mono_sensitive rx true). Qed.

  (* widening a size or a numeric range never turns acceptance into rejection
     (size_sub lo' hi' lo hi: lo' <= lo and hi <= hi') *)
  Theorem C03_widen_integer : forall lo hi lo' hi', size_sub lo' hi' lo hi = true -> forall b, TInteger lo hi ⊒ b -> TInteger lo' hi' ⊒ b.
  Proof. exact (widen_integer rx true). Qed.
  Theorem C03_widen_float : forall lo hi lo' hi', size_sub lo' hi' lo hi = true -> forall b, TFloat lo hi ⊒ b -> TFloat lo' hi' ⊒ b.
  Proof. exact (widen_float rx true). Qed.
  Theorem C03_widen_string : forall lo hi lo' hi', size_sub lo' hi' lo hi = true -> forall b, TStringSz lo hi ⊒ b -> TStringSz lo' hi' ⊒ b.
  Proof. exact (widen_stringsz rx true). Qed.
  Theorem C03_widen_collection : forall lo hi lo' hi', size_sub lo' hi' lo hi = true -> forall b, TCollection lo hi ⊒ b -> TCollection lo' hi' ⊒ b.
  Proof. exact (widen_collection rx true). Qed.
  Theorem C03_widen_array : forall e lo hi lo' hi', size_sub lo' hi' lo hi = true -> forall b, TArray e lo hi ⊒ b -> TArray e lo' hi' ⊒ b.
  Proof. exact (widen_array rx true). Qed.
  Theorem C03_widen_hash : forall k v lo hi lo' hi', size_sub lo' hi' lo hi = true -> forall b, THash k v lo hi ⊒ b -> THash k v lo' hi' ⊒ b.
  Proof. exact (widen_hash rx true). Qed.
  Theorem C03_widen_tuple : forall ts g lo hi lo' hi', size_sub lo' hi' lo hi = true -> forall b, TTuple ts g lo hi ⊒ b -> TTuple ts g lo' hi' ⊒ b.
  Proof. exact (widen_tuple rx true). Qed.

  (* transitivity: if A accepts B and B accepts C then A accepts C.  Side conditions:
       wf_ty      what the Go constructors guarantee (see the header);
       no_unit    no Unit type (two-way assignable by definition);
       rule_free  the by-specification rule "a Struct accepts a Hash type on key type and size alone" cannot have
                  contributed to any of the three answers (left operand without Struct or right operand without Hash;
                  open finding trans-through-struct-accepts-hash-rule, C03_trans_refuted_by_struct_hash_rule below).
     No condition on sizes: collection sizes with negative bounds parse and construct (Array[String,-1,-1]) and are
     covered (finding trans-negative-collection-size, fixed: the "admits at most the empty collection" shortcut
     tests max <= 0; C03_trans_negative_size_chain below). *)
  Theorem C03_trans : forall a b c,
    wf_ty a = true -> wf_ty b = true -> wf_ty c = true -> no_unit a = true -> no_unit b = true -> no_unit c = true ->
    rule_free a b = true -> rule_free b c = true -> rule_free a c = true ->
    a ⊒ b -> b ⊒ c -> a ⊒ c.
  Proof. exact (asg_trans_code rx). Qed.

  (* the same for the relation without the by-specification rule (`asg rx false`), all types of the model *)
  Theorem C03_trans_rule_free_relation : forall a b c,
    wf_ty a = true -> wf_ty b = true -> wf_ty c = true -> no_unit a = true -> no_unit b = true -> no_unit c = true ->
    asg rx false a b = true -> asg rx false b c = true -> asg rx false a c = true.
  Proof. exact (asg_trans rx). Qed.

  (* Any accepts everything, Variant[..A..] accepts A, Optional[A] accepts A and Undef *)
  Theorem C03_any_top : forall b, TAny ⊒ b.
  Proof. exact (asg_any rx true). Qed.
  Theorem C03_variant_member : forall ts a, wf_ty a = true -> In a ts -> TVariant ts ⊒ a.
  Proof. exact (variant_member rx true). Qed.
  Theorem C03_optional_accepts : forall a, wf_ty a = true -> TOptional a ⊒ a /\ TOptional a ⊒ TUndef.
  Proof. exact (optional_accepts rx true). Qed.

  (* Transitivity and interchangeability THROUGH the by-specification rule, where C03_trans says nothing (rule_free a b fails
     for a Struct against a Hash): the rule reads the key type of the Hash through the dispatcher (GuardedIsAssignable(String,
     key), structtype.go:294), so the answer of a Struct for a Hash follows the key type downwards - Variant / NotUndef /
     Optional wrappers around string types included - and two key types that accept each other are interchangeable below
     a Hash on the right of a Struct. No condition on the Struct, the value type or the size. *)
  Theorem C03_struct_hash_key_down : forall ms k k' v lo hi,
    wf_ty k = true -> wf_ty k' = true -> no_unit k = true -> no_unit k' = true -> rule_free k k' = true ->
    k ⊒ k' -> TStruct ms ⊒ THash k v lo hi -> TStruct ms ⊒ THash k' v lo hi.
  Proof. exact (struct_hash_key_down rx). Qed.
  Theorem C03_struct_hash_key_interchange : forall ms k k' v lo hi,
    wf_ty k = true -> wf_ty k' = true -> no_unit k = true -> no_unit k' = true -> rule_free k k' = true -> rule_free k' k = true ->
    k ⊒ k' -> k' ⊒ k -> asg rx true (TStruct ms) (THash k v lo hi) = asg rx true (TStruct ms) (THash k' v lo hi).
  Proof. exact (struct_hash_key_interchange rx). Qed.
End C03.

Print Assumptions C03_refl.
Print Assumptions C03_equal_accept.
Print Assumptions C03_mono_array.
Print Assumptions C03_mono_hash_key.
Print Assumptions C03_mono_hash_value.
Print Assumptions C03_mono_tuple_slot.
Print Assumptions C03_mono_struct_member.
Print Assumptions C03_mono_variant_member.
Print Assumptions C03_mono_optional.
Print Assumptions C03_mono_notundef.
Print Assumptions C03_mono_type.
Print Assumptions C03_mono_sensitive.
Print Assumptions C03_widen_integer.
Print Assumptions C03_widen_float.
Print Assumptions C03_widen_string.
Print Assumptions C03_widen_collection.
Print Assumptions C03_widen_array.
Print Assumptions C03_widen_hash.
Print Assumptions C03_widen_tuple.
Print Assumptions C03_trans.
Print Assumptions C03_trans_rule_free_relation.
Print Assumptions C03_any_top.
Print Assumptions C03_variant_member.
Print Assumptions C03_optional_accepts.
Print Assumptions C03_struct_hash_key_down.
Print Assumptions C03_struct_hash_key_interchange.

(* Non-vacuity of the two theorems above: Struct[{a=>Integer}] accepts Hash[String,Integer,1,1], String accepts
   Variant[Enum[a],Enum[b]] and NotUndef[String], and the Struct accepts the Hashes over those keys (the chains of seeded
   change C03-m8); String and Variant[String,String[1]] accept each other; a key type String does not accept is rejected. *)
Example C03_struct_hash_key_nonvacuous :
  let rx := fun _ _ => false in
  let i := TInteger (-9223372036854775808) 9223372036854775807 in
  let sa := TStruct [([97%N], (TStringVal [97%N], i))] in
  let kv := TVariant [TEnum false [[97%N]]; TEnum false [[98%N]]] in
  let kw := TVariant [TString; TStringSz 1 9223372036854775807] in
  asg rx true sa (THash TString i 1 1) = true /\ asg rx true TString kv = true /\ rule_free TString kv = true /\
  asg rx true sa (THash kv i 1 1) = true /\ asg rx true sa (THash (TNotUndef TString) i 1 1) = true /\
  asg rx true TString kw = true /\ asg rx true kw TString = true /\ asg rx true sa (THash kw i 1 1) = true /\
  asg rx true sa (THash (TVariant [TString; i]) i 1 1) = false /\ asg rx true sa (THash (TOptional TString) i 1 1) = false.
Proof. vm_compute. repeat split; reflexivity. Qed.

(* Non-vacuity: the laws on concrete nested types (the model computes). *)
Example C03_nonvacuous :
  let rx := fun _ _ => false in
  let i05 := TInteger 0 5 in let i := TInteger (-9223372036854775808) 9223372036854775807 in
  let v1 := TVariant [TString; i05] in let v2 := TVariant [i05; TString] in
  ty_eqb v1 v2 = true /\ asg rx true v1 v2 = true /\ asg rx true v2 v1 = true /\
  asg rx true i i05 = true /\ asg rx true (TNotUndef (TOptional i)) (TNotUndef (TOptional i05)) = true /\
  asg rx true (TStruct [([97%N], (TStringVal [97%N], i))]) (TStruct [([97%N], (TStringVal [97%N], i05))]) = true /\
  asg rx true (TStruct [([97%N], (TStringVal [97%N], i05))]) (TStruct [([97%N], (TStringVal [97%N], i))]) = false.
Proof. vm_compute. repeat split; reflexivity. Qed.

(* The by-specification rule breaks transitivity (open finding trans-through-struct-accepts-hash-rule):
   Struct[{a=>Integer}] >= Hash[String,Integer,1,1] >= Struct[{b=>Integer}], not Struct[{a=>..}] >= Struct[{b=>..}] *)
Example C03_trans_refuted_by_struct_hash_rule :
  let rx := fun _ _ => false in
  let i := TInteger (-9223372036854775808) 9223372036854775807 in
  let sa := TStruct [([97%N], (TStringVal [97%N], i))] in let sb := TStruct [([98%N], (TStringVal [98%N], i))] in
  let h := THash TString i 1 1 in
  asg rx true sa h = true /\ asg rx true h sb = true /\ asg rx true sa sb = false.
Proof. vm_compute. repeat split; reflexivity. Qed.

(* Non-vacuity of C03_trans: a nested chain A >= B >= C that satisfies every hypothesis (Struct members, Tuple
   slots, Variant, Optional, NotUndef, Enum/Pattern inside), and a chain that is NOT accepted backwards. *)
Example C03_trans_nonvacuous :
  let rx := fun p s => str_eqb p s in
  let k := TStringVal [97%N] in let ko := TOptional (TStringVal [98%N]) in
  let a := TStruct [([97%N], (k, TTuple [TVariant [TScalar; TUndef]; TOptional (TArray TString 0 5)] false 2 2)); ([98%N], (ko, TAny))] in
  let b := TStruct [([97%N], (k, TTuple [TOptional TString; TArray (TPattern [[120%N]; [121%N]]) 0 3] false 2 2)); ([98%N], (ko, TNumeric))] in
  let c := TStruct [([97%N], (k, TTuple [TNotUndef (TOptional (TEnum false [[120%N]])); TTuple [TStringVal [120%N]; TEnum false [[121%N]]] false 2 2] false 2 2))] in
  wf_ty a = true /\ wf_ty b = true /\ wf_ty c = true /\ no_unit a = true /\ no_unit b = true /\ no_unit c = true /\
  rule_free a b = true /\ rule_free b c = true /\ rule_free a c = true /\
  asg rx true a b = true /\ asg rx true b c = true /\ asg rx true a c = true /\
  asg rx true b a = false /\ asg rx true c b = false.
Proof. vm_compute. repeat split; reflexivity. Qed.

(* The statement without the rule_free guard, kept visible, and its refutation through the by-specification rule
   (model of the code = the code, checked on the implementation: open finding trans-through-struct-accepts-hash-rule). *)
Definition C03_trans_statement : Prop := forall rx a b c,
  wf_ty a = true -> wf_ty b = true -> wf_ty c = true -> no_unit a = true -> no_unit b = true -> no_unit c = true ->
  asg rx true a b = true -> asg rx true b c = true -> asg rx true a c = true.

Theorem C03_trans_statement_refuted : ~ C03_trans_statement.
Proof. exact asg_trans_unguarded_code_refuted. Qed.
Print Assumptions C03_trans_statement_refuted.

(* finding trans-negative-collection-size, fixed: the shortcut "a size that admits at most the empty collection makes
   the element types irrelevant" tested max == 0, and a sub-range of [-1,0] can have max < 0; it tests max <= 0 now.
   The chain that refuted transitivity is accepted:
   Array[Integer[0,9],-1,5] >= Array[String,-1,0] >= Array[String,-1,-1], and Array[Integer[0,9],-1,5] >= Array[String,-1,-1];
   the same through Hash and Tuple (slots and sizes below zero) *)
Example C03_trans_negative_size_chain :
  let rx := fun _ _ => false in
  let i09 := TInteger 0 9 in
  (let a := TArray i09 (-1) 5 in let b := TArray TString (-1) 0 in let c := TArray TString (-1) (-1) in
   asg rx true a b = true /\ asg rx true b c = true /\ asg rx true a c = true) /\
  (let a := THash i09 i09 (-1) 5 in let b := THash TString TString (-1) 0 in let c := THash TString TString (-1) (-1) in
   asg rx true a b = true /\ asg rx true b c = true /\ asg rx true a c = true) /\
  (let a := TTuple [i09] true (-1) 5 in let b := TTuple [TString] true (-1) 0 in let c := TTuple [TString] true (-1) (-1) in
   wf_ty a = true /\ wf_ty b = true /\ wf_ty c = true /\
   asg rx true a b = true /\ asg rx true b c = true /\ asg rx true a c = true).
Proof. vm_compute. repeat split; reflexivity. Qed.
