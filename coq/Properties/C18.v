(* C18 — The Go reflection bridge round-trips values and agrees with inferred types.
   This file holds ONLY the statements of the property theorems, each closed by `exact <lemma>`,
   and `Print Assumptions` beneath; plus the `_refuted` witnesses of the open findings and the
   non-vacuity examples.

   Model (Model/Reflect.v): gty / gval = the Go types assembled with reflect.SliceOf/MapOf/PtrTo/StructOf over the
   scalar kinds and their values (nil and empty slices/maps distinct, a map = its entries in key order, so that
   reflect.DeepEqual is equality of gval); wrap = px.Wrap (types.go wrap/wrapReflected/WrapPrimitive),
   ptype_of = px.WrapReflectedType, reflect_to = Reflector.Reflect2 (the ReflectTo methods), inst = IsInstance
   of the derived types, obj_* = the reflected object of a registered struct (objectvalue.go, objecttype.go: attribute
   order, Get, InitHash, declared defaults, the positional and the named-argument creator), reflect_into / reflect_hist =
   Reflector.ReflectTo into a destination that holds an earlier value / went through a sequence of conversions.
   `ffmt` is the oracle for fmt's rendering of float64 map keys (it only orders the entries of a wrapped Hash):
   every theorem holds for EVERY such function. *)
From Coq Require Import ZArith NArith Bool List Permutation.
From PcoreV Require Import Model.Base Model.Reflect Model.ReflectNamed Model.ReflectTypeSet Proofs.ReflectProofs Proofs.ReflectNamedProofs
  Proofs.ReflectTypeSetProofs.
Import ListNotations.
Open Scope Z_scope.

(* ------------------------------------------------------------------------------------------------ *)
(** * The property as stated, without guards (FALSE of the code: see the _refuted witnesses below) *)

Definition C18_statement_roundtrip : Prop :=
  forall (ffmt : Z -> str) v t, has_type v t = true -> reflect_to t (wrap ffmt t v) = Ok v.

Definition C18_statement_ptype_accepts : Prop :=
  forall (ffmt : Z -> str) v t, has_type v t = true -> inst (ptype_of t) (wrap ffmt t v) = true.

(* ------------------------------------------------------------------------------------------------ *)
(** * Clause 1: wrapping a Go value and reflecting it back into the same Go type reproduces the value.
      For every well-typed Go value of every shape (unbounded nesting), outside the input classes of the open
      findings nil-fastpath-empty, ptr-to-ptr, ptr-to-nil-collection (guard rt_ok; interface{} content is
      restricted to the dynamic types int64/float64/string/bool that Reflect gives back). Includes: all integer
      widths at their boundaries (uint64 >= 2^63 too: the wrap-around is undone by the truncation), float32
      widening, NaN and infinities, nil and empty slices and maps on the reflective path, []byte as Binary, map
      entries in ANY order chosen by the key texts, nil pointers, registered structs. *)
Theorem C18_roundtrip :
  forall (ffmt : Z -> str) v t,
    has_type v t = true -> rt_ok true t v = true -> reflect_to t (wrap ffmt t v) = Ok v.
Proof. exact roundtrip. Qed.
Print Assumptions C18_roundtrip.

(* the same for what wrapReflected makes of a struct field or a pointee (nil slices/maps become undef there) *)
Theorem C18_roundtrip_reflected :
  forall (ffmt : Z -> str) v t,
    has_type v t = true -> rt_ok false t v = true -> is_iface t = false ->
    reflect_to t (wrap_reflected ffmt t v) = Ok v.
Proof. exact roundtrip_reflected. Qed.
Print Assumptions C18_roundtrip_reflected.

(* reflect.DeepEqual of the model: the result is deeply equal to the original *)
Theorem C18_roundtrip_deep_equal :
  forall (ffmt : Z -> str) v t,
    has_type v t = true -> rt_ok true t v = true ->
    exists b, reflect_to t (wrap ffmt t v) = Ok b /\ gval_eqb v b = true.
Proof. exact roundtrip_deep_equal. Qed.
Print Assumptions C18_roundtrip_deep_equal.

(* Clause 1 observed at Reflector.ReflectTo with a destination the caller used before: whatever value d of the Go
   type the destination holds, and after ANY sequence `hist` of earlier conversions into it (failed ones included),
   converting the wrapped value into it leaves exactly the value that was wrapped - nothing of what the destination
   held survives (no entry of an earlier map, no element of an earlier slice, no field of an earlier struct). *)
Theorem C18_roundtrip_used_destination :
  forall (ffmt : Z -> str) t v d (hist : list value),
    has_type v t = true -> rt_ok true t v = true ->
    reflect_into t (reflect_hist t d hist) (wrap ffmt t v) = Ok v /\
    reflect_hist t d (hist ++ [wrap ffmt t v]) = v.
Proof. exact roundtrip_used_destination. Qed.
Print Assumptions C18_roundtrip_used_destination.

(* ------------------------------------------------------------------------------------------------ *)
(** * Clause 2: the pcore type derived from the Go type accepts the wrapped value.
      Outside the input classes of the open findings uint64-ge-2^63, float32-nonfinite (a float32 that is NaN or an
      infinity; every float64 is inside), nil-slice-map-undef (guard acc_ok). *)
Theorem C18_ptype_accepts :
  forall (ffmt : Z -> str) v t,
    has_type v t = true -> acc_ok true t v = true -> inst (ptype_of t) (wrap ffmt t v) = true.
Proof. exact ptype_accepts. Qed.
Print Assumptions C18_ptype_accepts.

(* ------------------------------------------------------------------------------------------------ *)
(** * Clause 3: an object type derived from a struct constructs instances that convert back to equal structs.
      The attribute values of the wrapped struct (Get per attribute = wrapReflected of the field), given to the
      constructor of the derived object type (each argument must be an instance of the attribute type, then is
      reflected into the field of a new struct), yield a struct equal to the original, which the reflector hands
      back (as the struct and behind a pointer).  The positional order of the attributes (those without a default
      first) differs from the field order; the theorem covers every struct shape, tags included.
      Guards: the fields are outside the finding classes (obj_ok = rt_ok false && acc_ok false per field; an
      interface{} field holds anything).  a: whether the wrapped struct was addressable.
      Three construction routes are modelled: one argument per attribute (this theorem), the positional call
      without the trailing optional arguments that equal the declared default of their attribute
      (C18_struct_object_trailing_defaults) and the named-argument creator given the init hash of the wrapped
      struct, which leaves out every attribute whose value equals its declared default
      (C18_struct_object_init_hash). *)
Theorem C18_struct_object_roundtrip :
  forall (ffmt : Z -> str) (a : bool) n fs vs,
    has_type (GVStruct vs) (GStruct n fs) = true -> obj_ok fs vs = true ->
    obj_new n fs (obj_gets ffmt a fs vs) = Ok (VObj n true (GVStruct vs)) /\
    reflect_to (GStruct n fs) (VObj n true (GVStruct vs)) = Ok (GVStruct vs) /\
    reflect_to (GPtr (GStruct n fs)) (VObj n true (GVStruct vs)) = Ok (GVPtr (Some (GVStruct vs))).
Proof. exact struct_object_roundtrip. Qed.
Print Assumptions C18_struct_object_roundtrip.

(* Declared defaults (`puppet:"value=>..."` on a field, also on a pointer field, i.e. an optional attribute whose
   default is not undef; a pointer field without tag has the implicit default undef).
   Positional construction with the longest run of trailing optional arguments that equal the default of their
   attribute left out (what attributesinfo.go:55 does, and what a caller does who omits optional arguments): the
   constructor accepts the shorter list (at least RequiredCount arguments), completes it with the declared defaults
   and rebuilds the same struct.  A GIVEN undef is not replaced by a default: a nil pointer field whose attribute
   declares the default 'tcp' is not a default position, stays in the list and comes back as the nil pointer.
   defaults_ok: a float default is not +-0 (Go's == identifies the two zeros, so the struct with the other zero would
   come back with the default's zero: deeply equal for Go, a different bit pattern for the model's values). *)
Theorem C18_struct_object_trailing_defaults :
  forall (ffmt : Z -> str) (a : bool) n fs vs,
    has_type (GVStruct vs) (GStruct n fs) = true -> obj_ok fs vs = true -> defaults_ok fs = true ->
    obj_new n fs (cut_defaults 0 (required_count fs) (attr_order fs) (obj_gets ffmt a fs vs)) = Ok (VObj n true (GVStruct vs)).
Proof. exact struct_object_trailing_defaults. Qed.
Print Assumptions C18_struct_object_trailing_defaults.

(* Construction from the init hash: InitHash() of the wrapped struct holds name => value for the attributes whose
   value differs from the declared default (so a nil pointer whose attribute declares another default IS an entry,
   with the value undef); the hash is an instance of the init type, the named-argument creator looks the attributes up
   by name, completes the absent ones with their defaults and rebuilds the same struct.
   NoDup: the attribute names (name tags / lower-cased field names) are distinct, as in every object type. *)
Theorem C18_struct_object_init_hash :
  forall (ffmt : Z -> str) (a : bool) n fs vs,
    has_type (GVStruct vs) (GStruct n fs) = true -> obj_ok fs vs = true -> defaults_ok fs = true ->
    NoDup (obj_attr_names fs) ->
    obj_new_hash n fs (obj_init_hash ffmt a fs vs) = Ok (VObj n true (GVStruct vs)).
Proof. exact struct_object_init_hash. Qed.
Print Assumptions C18_struct_object_init_hash.

(* ------------------------------------------------------------------------------------------------ *)
(** * Open findings: the unguarded statements are false of the (faithful) model, with the witnesses *)

(* nil-fastpath-empty: []int(nil) wraps to an EMPTY Array and comes back as []int{} *)
Theorem C18_nil_fastpath_empty_refuted :
  exists t v, has_type v t = true /\ rt_ok true t v = false /\
              forall ffmt, reflect_to t (wrap ffmt t v) = Ok (GVSlice (Some [])) /\ v = GVSlice None.
Proof. exists (GSlice (GInt KInt)), (GVSlice None). vm_compute. auto. Qed.
Print Assumptions C18_nil_fastpath_empty_refuted.

(* ptr-to-ptr: **int(&&5) wraps to 5, which no ReflectTo takes for a **int *)
Theorem C18_ptr_to_ptr_refuted :
  exists t v, has_type v t = true /\ rt_ok true t v = false /\
              forall ffmt, reflect_to t (wrap ffmt t v) = Err EWrongKind.
Proof. exists (GPtr (GPtr (GInt KInt))), (GVPtr (Some (GVPtr (Some (GVInt 5))))). vm_compute. auto. Qed.
Print Assumptions C18_ptr_to_ptr_refuted.

(* ptr-to-nil-collection: *[]int(&nil) wraps to undef and comes back as the nil pointer *)
Theorem C18_ptr_to_nil_collection_refuted :
  exists t v, has_type v t = true /\ rt_ok true t v = false /\
              forall ffmt, reflect_to t (wrap ffmt t v) = Ok (GVPtr None) /\ v = GVPtr (Some (GVSlice None)).
Proof. exists (GPtr (GSlice (GInt KInt))), (GVPtr (Some (GVSlice None))). vm_compute. auto. Qed.
Print Assumptions C18_ptr_to_nil_collection_refuted.

Theorem C18_statement_roundtrip_refuted : ~ C18_statement_roundtrip.
Proof. exact statement_roundtrip_refuted. Qed.
Print Assumptions C18_statement_roundtrip_refuted.

(* uint64-ge-2^63: uint64(2^64-1) wraps to -1, the derived type is Integer[0, MaxInt64] *)
Theorem C18_uint64_ge_2_63_refuted :
  exists t v, has_type v t = true /\ acc_ok true t v = false /\
              forall ffmt, wrap ffmt t v = VInt (-1) /\ ptype_of t = TInteger 0 max_int64 /\
                           inst (ptype_of t) (wrap ffmt t v) = false.
Proof. exists (GInt KUint64), (GVInt 18446744073709551615). vm_compute. auto. Qed.
Print Assumptions C18_uint64_ge_2_63_refuted.

(* ... while the round trip of that value is exact *)
Theorem C18_uint64_max_roundtrips :
  forall ffmt, reflect_to (GInt KUint64) (wrap ffmt (GInt KUint64) (GVInt 18446744073709551615)) = Ok (GVInt 18446744073709551615).
Proof. intros. vm_compute. reflexivity. Qed.
Print Assumptions C18_uint64_max_roundtrips.

(* float32-nonfinite: the type derived from float32 is the range of the finite float32 values, which contains
   neither the float32 infinities nor NaN (what is left of the fixed finding float-nonfinite) *)
Theorem C18_float32_nonfinite_refuted :
  exists t v, has_type v t = true /\ acc_ok true t v = false /\
              forall ffmt, inst (ptype_of t) (wrap ffmt t v) = false.
Proof. exists GFloat32, (GVFloat 9218868437227405312). vm_compute. auto. Qed.
Print Assumptions C18_float32_nonfinite_refuted.

(* ... while float64 has no exclusion (fixed finding float-nonfinite): the type derived from float64 is the unbounded
   Float type, which holds +Inf, -Inf and NaN; acc_ok does not look at a float64 *)
Theorem C18_float64_nonfinite_accepted :
  forall ffmt b, has_type (GVFloat b) GFloat64 = true ->
    acc_ok true GFloat64 (GVFloat b) = true /\ inst (ptype_of GFloat64) (wrap ffmt GFloat64 (GVFloat b)) = true.
Proof. intros ffmt b _. split; [reflexivity|]. cbn. apply Bool.orb_true_r. Qed.
Print Assumptions C18_float64_nonfinite_accepted.

Example C18_float64_nonfinite_nonvacuous :
  let ffmt := fun _ : Z => @nil N in
  let t := GSlice GFloat64 in
  let v := GVSlice (Some [GVFloat 9218868437227405312; GVFloat 18442240474082181120; GVFloat 9221120237041090561; GVFloat 0]) in
  has_type v t = true /\ acc_ok true t v = true /\ inst (ptype_of t) (wrap ffmt t v) = true /\
  inst (TFloat 0 9218868437227405312) (VFloat 9218868437227405312) = true /\      (* Float[0.0, +Inf] holds +Inf *)
  inst (TFloat 0 9218868437227405312) (VFloat 9221120237041090561) = false /\     (* ... and not NaN *)
  inst (TFloat 9221120237041090561 9221120237041090561) (VFloat 9221120237041090561) = false.
Proof. vm_compute. repeat split; reflexivity. Qed.

(* nil-slice-map-undef: []int8(nil) wraps to undef, the derived type is Array[Integer[-128,127]] *)
Theorem C18_nil_slice_map_undef_refuted :
  exists t v, has_type v t = true /\ acc_ok true t v = false /\
              forall ffmt, wrap ffmt t v = VUndef /\ inst (ptype_of t) (wrap ffmt t v) = false.
Proof. exists (GSlice (GInt KInt8)), (GVSlice None). vm_compute. auto. Qed.
Print Assumptions C18_nil_slice_map_undef_refuted.

Theorem C18_statement_ptype_accepts_refuted : ~ C18_statement_ptype_accepts.
Proof. exact statement_ptype_accepts_refuted. Qed.
Print Assumptions C18_statement_ptype_accepts_refuted.

(* ------------------------------------------------------------------------------------------------ *)
(** * The guards exclude nothing else: values without nil slices/maps, pointers to pointers, uint64 >= 2^63,
      non-finite float32 values and non-canonical interface content pass both guards *)
Theorem C18_guards_only_exclude_findings :
  forall v w t, plain_value t v = true -> rt_ok w t v = true /\ acc_ok w t v = true.
Proof. exact plain_value_guards. Qed.
Print Assumptions C18_guards_only_exclude_findings.

(* ------------------------------------------------------------------------------------------------ *)
(** * Non-vacuity: the hypotheses are satisfiable and the model computes non-trivial cases *)

Definition ex_ffmt (b : Z) : str := Z_to_str b.   (* any function will do *)

(* map[int16]*[]uint32 with boundary values, a nil pointer, an empty slice; the Hash is ordered by key TEXT
   (-32768 < 10 < 9 as strings) and still converts back to the same map *)
Definition ex_ty : gty := GMap (GInt KInt16) (GPtr (GSlice (GInt KUint32))).
Definition ex_val : gval :=
  GVMap (Some [ (GVInt (-32768), GVPtr (Some (GVSlice (Some [GVInt 4294967295; GVInt 0]))));
                (GVInt 9, GVPtr None);
                (GVInt 10, GVPtr (Some (GVSlice (Some [])))) ]).

Example C18_example_hypotheses :
  has_type ex_val ex_ty = true /\ rt_ok true ex_ty ex_val = true /\ acc_ok true ex_ty ex_val = true.
Proof. vm_compute. auto. Qed.

Example C18_example_wrapped :
  wrap ex_ffmt ex_ty ex_val =
  VHash [ (VInt (-32768), VArr [VInt 4294967295; VInt 0]); (VInt 10, VArr []); (VInt 9, VUndef) ].
Proof. vm_compute. reflexivity. Qed.

Example C18_example_roundtrip : reflect_to ex_ty (wrap ex_ffmt ex_ty ex_val) = Ok ex_val.
Proof. vm_compute. reflexivity. Qed.

Example C18_example_accepts :
  ptype_of ex_ty = THash (TInteger (-32768) 32767) (TOptional (TArray (TInteger 0 4294967295))) /\
  inst (ptype_of ex_ty) (wrap ex_ffmt ex_ty ex_val) = true.
Proof. vm_compute. auto. Qed.

(* a struct with a tagged name, a pointer used as optional and a byte slice *)
Definition ex_fields : list gfield :=
  [ GField [65]%N None None (GInt KInt8);
    GField [66]%N (Some [122; 105; 112]%N) None (GPtr GString);
    GField [67]%N None None (GSlice (GInt KUint8));
    GField [68]%N None None (GMap GString GFloat32) ].
Definition ex_struct : list gval :=
  [ GVInt (-128); GVPtr (Some (GVStr [104; 105]%N)); GVSlice (Some [GVInt 255; GVInt 0]);
    GVMap (Some [ (GVStr [97]%N, GVFloat 4609434218613702656) ]) ].

Example C18_example_struct_hypotheses :
  has_type (GVStruct ex_struct) (GStruct [84]%N ex_fields) = true /\ obj_ok ex_fields ex_struct = true.
Proof. vm_compute. auto. Qed.

Example C18_example_struct_gets :
  obj_gets ex_ffmt false ex_fields ex_struct =
  [ VInt (-128); VBinary (Some [255; 0]%N); VHash [ (VStr [97]%N, VFloat 4609434218613702656) ]; VStr [104; 105]%N ].
Proof. vm_compute. reflexivity. Qed.

Example C18_example_struct_new :
  obj_new [84]%N ex_fields (obj_gets ex_ffmt false ex_fields ex_struct) = Ok (VObj [84]%N true (GVStruct ex_struct)).
Proof. vm_compute. reflexivity. Qed.

(* a used destination: a map that holds other keys, then two more conversions (one of them failing), then the value *)
Example C18_example_used_destination :
  let old := GVMap (Some [ (GVInt 1, GVPtr None); (GVInt 77, GVPtr (Some (GVSlice (Some [GVInt 5])))) ]) in
  has_type old ex_ty = true /\
  reflect_hist ex_ty old [VHash [(VInt 3, VUndef)]; VStr [120]%N; wrap ex_ffmt ex_ty ex_val] = ex_val.
Proof. vm_compute. auto. Qed.

(* declared defaults on pointer fields: Host string; Proto *string `value=>'tcp'`; Port *uint16 `value=>8080`;
   Ratio *float32 `value=>0.5`; Note *string *)
Definition ex_tcp : str := [116; 99; 112]%N.
Definition ex_endpoint : list gfield :=
  [ GField [72; 111; 115; 116]%N None None GString;
    GField [80; 114; 111; 116; 111]%N None (Some (LStr ex_tcp)) (GPtr GString);
    GField [80; 111; 114; 116]%N None (Some (LInt 8080)) (GPtr (GInt KUint16));
    GField [82; 97; 116; 105; 111]%N None (Some (LFloat 4602678819172646912)) (GPtr GFloat32);
    GField [78; 111; 116; 101]%N None None (GPtr GString) ].
(* Proto nil (NOT its default), Port at its default, Ratio at its default, Note nil (its implicit default) *)
Definition ex_endpoint_val : list gval :=
  [ GVStr [99]%N; GVPtr None; GVPtr (Some (GVInt 8080)); GVPtr (Some (GVFloat 4602678819172646912)); GVPtr None ].

Example C18_example_defaults_hypotheses :
  has_type (GVStruct ex_endpoint_val) (GStruct [84]%N ex_endpoint) = true /\ obj_ok ex_endpoint ex_endpoint_val = true /\
  defaults_ok ex_endpoint = true /\ required_count ex_endpoint = 1%nat.
Proof. vm_compute. auto. Qed.

(* the init hash keeps 'proto' => undef (undef is not the default 'tcp') and leaves out port, ratio, note *)
Example C18_example_init_hash :
  obj_init_hash ex_ffmt false ex_endpoint ex_endpoint_val =
  [ (VStr [104; 111; 115; 116]%N, VStr [99]%N); (VStr [112; 114; 111; 116; 111]%N, VUndef) ] /\
  obj_new_hash [84]%N ex_endpoint (obj_init_hash ex_ffmt false ex_endpoint ex_endpoint_val) =
  Ok (VObj [84]%N true (GVStruct ex_endpoint_val)).
Proof. vm_compute. auto. Qed.

(* the positional list without the trailing defaults keeps the undef of proto; the constructor completes the rest *)
Example C18_example_trailing_defaults :
  cut_defaults 0 1 (attr_order ex_endpoint) (obj_gets ex_ffmt false ex_endpoint ex_endpoint_val) = [VStr [99]%N; VUndef] /\
  obj_new [84]%N ex_endpoint [VStr [99]%N; VUndef] = Ok (VObj [84]%N true (GVStruct ex_endpoint_val)) /\
  obj_new [84]%N ex_endpoint [VStr [99]%N] =
  Ok (VObj [84]%N true (GVStruct [ GVStr [99]%N; GVPtr (Some (GVStr ex_tcp)); GVPtr (Some (GVInt 8080));
                                   GVPtr (Some (GVFloat 4602678819172646912)); GVPtr None ])) /\
  obj_new [84]%N ex_endpoint [] = Err EArgs.
Proof. vm_compute. auto. Qed.

(* ------------------------------------------------------------------------------------------------ *)
(** * Defined Go types (Model/ReflectNamed.v): type Port uint16, type Blob []byte, net.IP, []Octet with type Octet uint8,
      map[Label]Blob, pointers to them - what reflect.SliceOf/MapOf/PtrTo cannot assemble but every program declares.
      A type is its underlying structure t plus a mask m of the nodes that are defined types; wrapn / ptype_n follow the
      places where the bridge tests the IDENTITY of a type (type switch of wrap, wellKnown table) instead of its Kind.
      Both clauses hold for EVERY mask, i.e. wherever the defined types sit: in particular a defined byte slice is an
      Array[Integer[0, 255]] on the value side and on the type side alike. *)
Theorem C18_named_roundtrip :
  forall (ffmt : Z -> str) v t m,
    has_type v t = true -> rt_ok_n true t m v = true -> reflect_to t (wrapn ffmt true t m v) = Ok v.
Proof. exact roundtrip_named. Qed.
Print Assumptions C18_named_roundtrip.

Theorem C18_named_ptype_accepts :
  forall (ffmt : Z -> str) v t m,
    has_type v t = true -> acc_ok_n true t m v = true -> inst (ptype_n t m) (wrapn ffmt true t m v) = true.
Proof. exact ptype_accepts_named. Qed.
Print Assumptions C18_named_ptype_accepts.

(* the model of the assembled types is the special case in which no node is a defined type *)
Theorem C18_named_generalises :
  forall (ffmt : Z -> str) v w t, wrapn ffmt w t (NM false []) v = wrapx ffmt w t v /\ ptype_n t (NM false []) = ptype_of t.
Proof. exact named_generalises. Qed.
Print Assumptions C18_named_generalises.

(* which fields of a struct become attributes of the derived object type: every field except an embedded FIRST field of
   a type derived with a declared parent; an embedded struct further down (or without a declared parent) is an
   attribute named after its type, so it takes part in InitHash and in the constructors like any other field *)
Theorem C18_embedded_field_is_attribute :
  forall has_parent (fs : list (str * bool)) i n,
    nth_error fs i = Some (n, true) -> (i <> 0%nat \/ has_parent = false) ->
    In (first_to_lower n) (own_attr_names has_parent fs).
Proof. exact embedded_field_is_attribute. Qed.
Print Assumptions C18_embedded_field_is_attribute.

Theorem C18_every_field_but_the_parent_is_an_attribute :
  forall has_parent (fs : list (str * bool)) i f,
    nth_error fs i = Some f ->
    (i = 0%nat /\ snd f = true /\ has_parent = true) \/ In f (own_attr_fields has_parent fs).
Proof. exact own_attr_fields_spec. Qed.
Print Assumptions C18_every_field_but_the_parent_is_an_attribute.

(* type Blob []byte; type Octet uint8: Blob{1,255}, []Octet{7} and *Blob are Arrays of Integer[0,255] on both sides,
   []byte{1,255} stays a Binary; a nil Blob is undef (no fast path), a nil []byte handed to wrap a Binary *)
Example C18_example_named_bytes :
  let bytes := GSlice (GInt KUint8) in
  let v := GVSlice (Some [GVInt 1; GVInt 255]) in
  wrapn ex_ffmt true bytes (NM true []) v = VArr [VInt 1; VInt 255] /\
  ptype_n bytes (NM true []) = TArray (TInteger 0 255) /\
  wrapn ex_ffmt true bytes (NM false [NM true []]) (GVSlice (Some [GVInt 7])) = VArr [VInt 7] /\
  ptype_n (GPtr bytes) (NM false [NM true []]) = TOptional (TArray (TInteger 0 255)) /\
  wrapn ex_ffmt true bytes (NM false []) v = VBinary (Some [1; 255]%N) /\
  ptype_n bytes (NM false []) = TBinary /\
  wrapn ex_ffmt true bytes (NM true []) (GVSlice None) = VUndef /\
  wrapn ex_ffmt true bytes (NM false []) (GVSlice None) = VBinary None /\
  reflect_to bytes (wrapn ex_ffmt true bytes (NM true []) v) = Ok v /\
  rt_ok_n true bytes (NM true []) v = true /\ acc_ok_n true bytes (NM true []) v = true.
Proof. vm_compute. repeat split; reflexivity. Qed.

(* struct Job { Id; Limits (embedded); Tags; *Meta (embedded); Done }: five attributes without a parent; struct Child
   { Limits (embedded first); Name }: one attribute with the parent declared, two without *)
Example C18_example_embedded :
  let job := [([73; 100]%N, false); ([76; 105; 109; 105; 116; 115]%N, true); ([84; 97; 103; 115]%N, false);
              ([77; 101; 116; 97]%N, true); ([68; 111; 110; 101]%N, false)] in
  let child := [([76; 105; 109; 105; 116; 115]%N, true); ([78; 97; 109; 101]%N, false)] in
  length (own_attr_names false job) = 5%nat /\ length (own_attr_names true job) = 5%nat /\
  own_attr_names true child = [[110; 97; 109; 101]%N] /\
  own_attr_names false child = [[108; 105; 109; 105; 116; 115]%N; [110; 97; 109; 101]%N].
Proof. vm_compute. repeat split; reflexivity. Qed.

(* ------------------------------------------------------------------------------------------------ *)
(** * The second entry point: Reflector.TypeSetFromReflect (Model/ReflectTypeSet.v) *)

(* the loop over the argument list is the map of a function of the single struct: nothing is carried from one struct of
   the list to the next *)
Theorem C18_typeset_is_per_struct :
  forall ts_name aliases rts,
    typeset_entries ts_name aliases rts = map (ts_entry (ts_name ++ [colon; colon]) aliases) rts.
Proof. exact typeset_entries_map. Qed.
Print Assumptions C18_typeset_is_per_struct.

(* ORDER INDEPENDENCE: for every two orders of the same structs (distinct type names), every name resolves to the same
   entry - same parent, same own attributes - in both type sets; the entries are a permutation of each other *)
Theorem C18_typeset_order_independent :
  forall ts_name aliases l l',
    Permutation l l' ->
    NoDup (map (fun s => type_name (ts_name ++ [colon; colon]) aliases (sd_name s)) l) ->
    Permutation (typeset_entries ts_name aliases l) (typeset_entries ts_name aliases l') /\
    forall n, ts_lookup n (typeset_entries ts_name aliases l) = ts_lookup n (typeset_entries ts_name aliases l').
Proof.
  intros ts_name aliases l l' HP Hnd. split.
  - now apply typeset_entries_perm.
  - now apply typeset_order_independent.
Qed.
Print Assumptions C18_typeset_order_independent.

(* every struct of the list is found under its name; its parent and its own attributes are those of that struct alone *)
Theorem C18_typeset_member :
  forall ts_name aliases l s,
    NoDup (map (fun s => type_name (ts_name ++ [colon; colon]) aliases (sd_name s)) l) ->
    In s l ->
    ts_lookup (type_name (ts_name ++ [colon; colon]) aliases (sd_name s)) (typeset_entries ts_name aliases l) =
    Some (ts_entry (ts_name ++ [colon; colon]) aliases s).
Proof. exact typeset_member. Qed.
Print Assumptions C18_typeset_member.

(* a struct without an embedded first struct field has no parent and declares every one of its fields, wherever it
   stands in the list; a struct with one has the type named after it as parent and declares the remaining fields *)
Theorem C18_typeset_plain_struct :
  forall prefix aliases s,
    has_parent s = false ->
    te_parent (ts_entry prefix aliases s) = None /\
    te_own (ts_entry prefix aliases s) = map (fun f => first_to_lower (sf_name f)) (sd_fields s).
Proof. exact plain_struct_entry. Qed.
Print Assumptions C18_typeset_plain_struct.

Theorem C18_typeset_child_struct :
  forall prefix aliases n f fs',
    sf_emb f = true -> sf_struct f = true ->
    te_parent (ts_entry prefix aliases (SD n (f :: fs'))) = Some (type_name prefix aliases (sf_tname f)) /\
    te_own (ts_entry prefix aliases (SD n (f :: fs'))) = map (fun f => first_to_lower (sf_name f)) fs'.
Proof. exact child_struct_entry. Qed.
Print Assumptions C18_typeset_child_struct.

(* the key of the entry is the alias (or Go name) of the struct when that holds no "::" and does not start with ':' *)
Theorem C18_typeset_entry_key :
  forall ts_name aliases s,
    after_last_sep (alias_of aliases (sd_name s)) = None ->
    hd_error (alias_of aliases (sd_name s)) <> Some colon ->
    te_key (ts_entry (ts_name ++ [colon; colon]) aliases s) = alias_of aliases (sd_name s).
Proof. exact entry_key_plain. Qed.
Print Assumptions C18_typeset_entry_key.

(* type set "T" of  B{X}, N{B (embedded); Y}, P{Z}  with the alias N => M: in the order B, N, P and in the order P, N, B
   the struct P has no parent and the attribute z, N has the parent T::B and the attribute y *)
Example C18_example_typeset :
  let b := SD [66]%N [SF [88]%N false false [105]%N] in
  let n := SD [78]%N [SF [66]%N true true [66]%N; SF [89]%N false false [105]%N] in
  let p := SD [80]%N [SF [90]%N false false [105]%N] in
  let al := [([78]%N, [77]%N)] in
  let e1 := typeset_entries [84]%N al [b; n; p] in
  let e2 := typeset_entries [84]%N al [p; n; b] in
  ts_lookup [84; 58; 58; 80]%N e1 = Some (TE [80]%N [84; 58; 58; 80]%N None [[122]%N]) /\
  ts_lookup [84; 58; 58; 80]%N e2 = ts_lookup [84; 58; 58; 80]%N e1 /\
  ts_lookup [84; 58; 58; 77]%N e1 = Some (TE [77]%N [84; 58; 58; 77]%N (Some [84; 58; 58; 66]%N) [[121]%N]) /\
  ts_lookup [84; 58; 58; 77]%N e2 = ts_lookup [84; 58; 58; 77]%N e1 /\
  map te_key e1 = [[66]%N; [77]%N; [80]%N] /\ map te_key e2 = [[80]%N; [77]%N; [66]%N].
Proof. vm_compute. repeat split; reflexivity. Qed.
